#!/bin/bash
# usage: tools/try_mutation.sh <patch.diff> <prop> [<prop> ...]
# Applies a seeded change to /repo, runs the quick checks, prints verdicts, and always reverts.
set -u
patch="$1"; shift
cd /verif
if [ -n "$(git -C /repo status --porcelain --untracked-files=no)" ]; then echo "/repo not clean"; exit 3; fi
git -C /repo apply "$patch" || { echo "patch does not apply"; exit 3; }
trap 'git -C /repo checkout -- . ; git -C /repo status --porcelain --untracked-files=no' EXIT
for p in "$@"; do
  out=$(mktemp)
  /usr/bin/time -f "%es" ./check "$p" --tier "${TIER:-quick}" > "$out" 2>&1
  rc=$?
  echo "== $p exit=$rc $(tail -n 1 "$out")"
  grep -E "^VIOLATION|^KNOWN|^INCONCLUSIVE" "$out" | head -6
  grep -A1 "^VIOLATION" "$out" | grep -v "^VIOLATION" | grep -v "^--" | head -3 | cut -c1-400
  rm -f "$out"
done
