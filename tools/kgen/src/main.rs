//! Native helper: runs the real kiki pipeline on a file and dumps the result as JSON.
//! Usage: kgen gen <in.kiki> <out.json> | kgen lex <in> <out.json> | kgen batch <listfile>
use kiki::data::machine::*;
use kiki::data::validated_file as vf;
use kiki::verif_hooks as hooks;
use kiki::*;
use std::fmt::Write as _;
use std::panic;

fn esc(s: &str) -> String {
    let mut o = String::with_capacity(s.len() + 2);
    o.push('"');
    for c in s.chars() {
        match c {
            '"' => o.push_str("\\\""),
            '\\' => o.push_str("\\\\"),
            '\n' => o.push_str("\\n"),
            '\r' => o.push_str("\\r"),
            '\t' => o.push_str("\\t"),
            c if (c as u32) < 0x20 => {
                let _ = write!(o, "\\u{:04x}", c as u32);
            }
            c => o.push(c),
        }
    }
    o.push('"');
    o
}

fn item_json(it: &StateItem) -> String {
    let rule = match it.rule_index {
        RuleIndex::Original(i) => i as i64,
        RuleIndex::Augmented => -1,
    };
    let la = match &it.lookahead {
        Lookahead::Terminal(t) => esc(t.raw()),
        Lookahead::Eof => "null".to_string(),
    };
    format!("{{\"rule\":{},\"dot\":{},\"la\":{}}}", rule, it.dot, la)
}

fn sym_json(s: &vf::IdentOrTerminalIdent) -> String {
    match s {
        vf::IdentOrTerminalIdent::Ident(i) => format!("[\"N\",{}]", esc(&i.name)),
        vf::IdentOrTerminalIdent::Terminal(t) => format!("[\"T\",{}]", esc(t.name.raw())),
    }
}

fn fieldset_json(f: &vf::Fieldset) -> String {
    match f {
        vf::Fieldset::Empty => "{\"kind\":\"empty\",\"fields\":[]}".to_string(),
        vf::Fieldset::Named(n) => {
            let fs: Vec<String> = n
                .fields
                .iter()
                .map(|f| {
                    let (name, used) = match &f.name {
                        vf::IdentOrUnderscore::Ident(i) => (esc(&i.name), true),
                        vf::IdentOrUnderscore::Underscore(_) => ("null".to_string(), false),
                    };
                    format!("{{\"name\":{},\"used\":{},\"sym\":{}}}", name, used, sym_json(&f.symbol))
                })
                .collect();
            format!("{{\"kind\":\"named\",\"fields\":[{}]}}", fs.join(","))
        }
        vf::Fieldset::Tuple(t) => {
            let fs: Vec<String> = t
                .fields
                .iter()
                .map(|f| {
                    format!(
                        "{{\"name\":null,\"used\":{},\"sym\":{}}}",
                        f.is_used(),
                        sym_json(f.symbol())
                    )
                })
                .collect();
            format!("{{\"kind\":\"tuple\",\"fields\":[{}]}}", fs.join(","))
        }
    }
}

fn attrs_json(a: &[vf::Attribute]) -> String {
    let v: Vec<String> = a.iter().map(|a| esc(&a.src)).collect();
    format!("[{}]", v.join(","))
}

fn file_json(f: &vf::File) -> String {
    let terms: Vec<String> = f
        .terminal_enum
        .variants
        .iter()
        .map(|v| format!("[{},{}]", esc(v.dollarless_name.raw()), esc(&v.type_)))
        .collect();
    let nts: Vec<String> = f
        .nonterminals
        .iter()
        .map(|n| match n {
            vf::Nonterminal::Struct(s) => format!(
                "{{\"kind\":\"struct\",\"name\":{},\"attrs\":{},\"fieldset\":{}}}",
                esc(&s.name.name),
                attrs_json(&s.attributes),
                fieldset_json(&s.fieldset)
            ),
            vf::Nonterminal::Enum(e) => {
                let vs: Vec<String> = e
                    .variants
                    .iter()
                    .map(|v| format!("{{\"name\":{},\"fieldset\":{}}}", esc(&v.name.name), fieldset_json(&v.fieldset)))
                    .collect();
                format!(
                    "{{\"kind\":\"enum\",\"name\":{},\"attrs\":{},\"variants\":[{}]}}",
                    esc(&e.name.name),
                    attrs_json(&e.attributes),
                    vs.join(",")
                )
            }
        })
        .collect();
    format!(
        "{{\"start\":{},\"term_enum\":{},\"term_attrs\":{},\"terminals\":[{}],\"nonterminals\":[{}]}}",
        esc(&f.start),
        esc(&f.terminal_enum.name),
        attrs_json(&f.terminal_enum.attributes),
        terms.join(","),
        nts.join(",")
    )
}

fn machine_json(m: &Machine) -> String {
    let states: Vec<String> = m
        .states
        .iter()
        .map(|s| {
            let its: Vec<String> = s.items.iter().map(item_json).collect();
            format!("[{}]", its.join(","))
        })
        .collect();
    let trans: Vec<String> = m
        .transitions
        .iter()
        .map(|t| {
            let (k, n) = match &t.symbol {
                Symbol::Terminal(t) => ("T", t.raw().to_string()),
                Symbol::Nonterminal(n) => ("N", n.clone()),
            };
            format!("[{},{},\"{}\",{}]", t.from.0, t.to.0, k, esc(&n))
        })
        .collect();
    format!(
        "{{\"start\":{},\"states\":[{}],\"transitions\":[{}]}}",
        m.start.0,
        states.join(","),
        trans.join(",")
    )
}

fn idx_list(v: &[ByteIndex]) -> String {
    let v: Vec<String> = v.iter().map(|b| b.0.to_string()).collect();
    format!("[{}]", v.join(","))
}

fn err_json(e: &KikiErr) -> String {
    match e {
        KikiErr::Lex(i, c) => format!(
            "{{\"variant\":\"Lex\",\"index\":{},\"char\":{}}}",
            i.0,
            match c {
                Some(c) => (*c as u32).to_string(),
                None => "null".to_string(),
            }
        ),
        KikiErr::Parse(s, t, e) => format!(
            "{{\"variant\":\"Parse\",\"start\":{},\"text\":{},\"end\":{}}}",
            s.0,
            esc(t),
            e.0
        ),
        KikiErr::NoStartSymbol => "{\"variant\":\"NoStartSymbol\"}".to_string(),
        KikiErr::MultipleStartSymbols(v) => {
            format!("{{\"variant\":\"MultipleStartSymbols\",\"positions\":{}}}", idx_list(v))
        }
        KikiErr::NoTerminalEnum => "{\"variant\":\"NoTerminalEnum\"}".to_string(),
        KikiErr::MultipleTerminalEnums(v) => {
            format!("{{\"variant\":\"MultipleTerminalEnums\",\"positions\":{}}}", idx_list(v))
        }
        KikiErr::SymbolOrTerminalEnumNameFirstLetterNotUppercase(p) => format!(
            "{{\"variant\":\"SymbolOrTerminalEnumNameFirstLetterNotUppercase\",\"position\":{}}}",
            p.0
        ),
        KikiErr::FieldFirstLetterNotLowercase(p) => {
            format!("{{\"variant\":\"FieldFirstLetterNotLowercase\",\"position\":{}}}", p.0)
        }
        KikiErr::NameClash(n, a, b) => format!(
            "{{\"variant\":\"NameClash\",\"name\":{},\"a\":{},\"b\":{}}}",
            esc(n),
            a.0,
            b.0
        ),
        KikiErr::NonterminalEnumVariantNameClash(n, a, b) => format!(
            "{{\"variant\":\"NonterminalEnumVariantNameClash\",\"name\":{},\"a\":{},\"b\":{}}}",
            esc(n),
            a.0,
            b.0
        ),
        KikiErr::NonterminalEnumVariantSymbolSequenceClash(s, a, b) => {
            let syms: Vec<String> = s
                .iter()
                .map(|s| match s {
                    Symbol::Terminal(t) => format!("[\"T\",{}]", esc(t.raw())),
                    Symbol::Nonterminal(n) => format!("[\"N\",{}]", esc(n)),
                })
                .collect();
            format!(
                "{{\"variant\":\"NonterminalEnumVariantSymbolSequenceClash\",\"symbols\":[{}],\"a\":{},\"b\":{}}}",
                syms.join(","),
                a.0,
                b.0
            )
        }
        KikiErr::UndefinedNonterminal(n, p) => format!(
            "{{\"variant\":\"UndefinedNonterminal\",\"name\":{},\"position\":{}}}",
            esc(n),
            p.0
        ),
        KikiErr::UndefinedTerminal(n, p) => format!(
            "{{\"variant\":\"UndefinedTerminal\",\"name\":{},\"position\":{}}}",
            esc(n.raw()),
            p.0
        ),
        KikiErr::TableConflict(c) => format!(
            "{{\"variant\":\"TableConflict\",\"state_index\":{},\"items\":[{},{}],\"file\":{},\"machine\":{}}}",
            c.state_index.0,
            item_json(&c.items.0),
            item_json(&c.items.1),
            file_json(&c.file),
            machine_json(&c.machine)
        ),
    }
}

fn panic_msg(p: Box<dyn std::any::Any + Send>) -> String {
    if let Some(s) = p.downcast_ref::<&str>() {
        s.to_string()
    } else if let Some(s) = p.downcast_ref::<String>() {
        s.clone()
    } else {
        "<non-string panic>".to_string()
    }
}

fn do_gen(src: &str) -> String {
    let r = panic::catch_unwind(|| generate(src));
    match r {
        Ok(Ok(rs)) => {
            let h = get_grammar_hash(rs.as_ref()).map(|s| esc(s)).unwrap_or("null".to_string());
            format!("{{\"status\":\"ok\",\"hash\":{},\"rust\":{}}}", h, esc(&rs.0))
        }
        Ok(Err(e)) => format!("{{\"status\":\"err\",\"err\":{},\"debug_len\":{}}}", err_json(&e), format!("{e:?}").len()),
        Err(p) => format!("{{\"status\":\"panic\",\"msg\":{}}}", esc(&panic_msg(p))),
    }
}

fn tok_json(t: &kiki::data::token::Token) -> String {
    use kiki::data::token::Token::*;
    let simple = |k: &str, p: &ByteIndex| format!("[\"{}\",{},null]", k, p.0);
    match t {
        Underscore(p) => simple("Underscore", p),
        Ident(i) => format!("[\"Ident\",{},{}]", i.position.0, esc(&i.name)),
        TerminalIdent(i) => format!("[\"TerminalIdent\",{},{}]", i.dollarless_position.0, esc(i.name.raw())),
        OuterAttribute(a) => format!("[\"OuterAttribute\",{},{}]", a.position.0, esc(&a.src)),
        StartKw(p) => simple("StartKw", p),
        StructKw(p) => simple("StructKw", p),
        EnumKw(p) => simple("EnumKw", p),
        TerminalKw(p) => simple("TerminalKw", p),
        Colon(p) => simple("Colon", p),
        DoubleColon(p) => simple("DoubleColon", p),
        Comma(p) => simple("Comma", p),
        LParen(p) => simple("LParen", p),
        RParen(p) => simple("RParen", p),
        LCurly(p) => simple("LCurly", p),
        RCurly(p) => simple("RCurly", p),
        LAngle(p) => simple("LAngle", p),
        RAngle(p) => simple("RAngle", p),
    }
}

fn do_lex(src: &str) -> String {
    let r = panic::catch_unwind(|| hooks::tokenize(src));
    match r {
        Ok(Ok(toks)) => {
            let v: Vec<String> = toks.iter().map(tok_json).collect();
            format!("{{\"status\":\"ok\",\"tokens\":[{}]}}", v.join(","))
        }
        Ok(Err(e)) => format!("{{\"status\":\"err\",\"err\":{}}}", err_json(&e)),
        Err(p) => format!("{{\"status\":\"panic\",\"msg\":{}}}", esc(&panic_msg(p))),
    }
}

fn mk_token(kind: &str, i: usize) -> Option<kiki::data::token::Token> {
    use kiki::data::token::{Attribute, Ident, TerminalIdent, Token::*};
    let b = ByteIndex(i);
    Some(match kind {
        "Underscore" => Underscore(b),
        "Ident" => Ident(Ident { name: "x".to_string(), position: b }),
        "TerminalIdent" => TerminalIdent(TerminalIdent {
            name: DollarlessTerminalName::remove_dollars("X"),
            dollarless_position: b,
        }),
        "OuterAttribute" => OuterAttribute(Attribute { src: "#[a]".to_string(), position: b }),
        "StartKw" => StartKw(b),
        "StructKw" => StructKw(b),
        "EnumKw" => EnumKw(b),
        "TerminalKw" => TerminalKw(b),
        "Colon" => Colon(b),
        "DoubleColon" => DoubleColon(b),
        "Comma" => Comma(b),
        "LParen" => LParen(b),
        "RParen" => RParen(b),
        "LCurly" => LCurly(b),
        "RCurly" => RCurly(b),
        "LAngle" => LAngle(b),
        "RAngle" => RAngle(b),
        _ => return None,
    })
}

fn token_index(t: &kiki::data::token::Token) -> usize {
    use kiki::data::token::Token::*;
    match t {
        Ident(i) => i.position.0,
        TerminalIdent(i) => i.dollarless_position.0,
        OuterAttribute(a) => a.position.0,
        Underscore(p) | StartKw(p) | StructKw(p) | EnumKw(p) | TerminalKw(p) | Colon(p) | DoubleColon(p)
        | Comma(p) | LParen(p) | RParen(p) | LCurly(p) | RCurly(p) | LAngle(p) | RAngle(p) => p.0,
    }
}

/// Runs the real front-end parser on a sequence of token kinds (names separated by whitespace).
fn do_parsekinds(src: &str) -> String {
    let mut toks = vec![];
    for (i, k) in src.split_whitespace().enumerate() {
        match mk_token(k, i) {
            Some(t) => toks.push(t),
            None => return format!("{{\"status\":\"bad-kind\",\"kind\":{}}}", esc(k)),
        }
    }
    let n = toks.len();
    let r = panic::catch_unwind(move || hooks::parse(toks).map(|_| ()));
    match r {
        Ok(Ok(())) => format!("{{\"status\":\"ok\",\"n\":{}}}", n),
        Ok(Err(Some(t))) => format!("{{\"status\":\"err\",\"index\":{},\"n\":{}}}", token_index(&t), n),
        Ok(Err(None)) => format!("{{\"status\":\"err\",\"index\":null,\"n\":{}}}", n),
        Err(p) => format!("{{\"status\":\"panic\",\"msg\":{}}}", esc(&panic_msg(p))),
    }
}

fn run(cmd: &str, inp: &str, out: &str) {
    let bytes = std::fs::read(inp).expect("read input");
    let json = match String::from_utf8(bytes) {
        Err(_) => "{\"status\":\"not-utf8\"}".to_string(),
        Ok(src) => match cmd {
            "gen" => do_gen(&src),
            "lex" => do_lex(&src),
            "parsekinds" => do_parsekinds(&src),
            _ => panic!("unknown command"),
        },
    };
    std::fs::write(out, json).expect("write output");
}

fn main() {
    panic::set_hook(Box::new(|_| {}));
    let a: Vec<String> = std::env::args().collect();
    match a[1].as_str() {
        "batch" => {
            let list = std::fs::read_to_string(&a[2]).unwrap();
            for line in list.lines() {
                let p: Vec<&str> = line.split('\t').collect();
                if p.len() == 3 {
                    run(p[0], p[1], p[2]);
                }
            }
        }
        c => run(c, &a[2], &a[3]),
    }
}
