"""Thin SMT-LIB2 layer: one solver process kept alive, queries batched with push/pop.

Any `(error` line is treated as inconclusive.  `Solver.check(script)` returns
'sat' | 'unsat' | 'unknown' and, for sat, a model dict for the requested symbols.
"""
from __future__ import annotations
import re
import subprocess
import time

SOLVERS = {
    'z3': ['/usr/bin/z3', '-in', '-smt2'],
    'z3-new': ['z3-new', '-in', '-smt2'],
    'cvc5': ['/usr/bin/cvc5', '--lang', 'smt2', '--incremental', '--produce-models'],
}


class SolverError(Exception):
    pass


class Solver:
    def __init__(self, name='z3', logic='QF_BV', timeout_s=120):
        self.name = name
        self.p = subprocess.Popen(SOLVERS[name], stdin=subprocess.PIPE, stdout=subprocess.PIPE,
                                  stderr=subprocess.STDOUT, text=True, bufsize=1)
        self.queries = 0
        self.time = 0.0
        self.timeout_s = timeout_s
        self.log = []
        self._send('(set-option :produce-models true)')
        self._send('(set-logic %s)' % logic)
        self._sync()

    def _send(self, s):
        self.p.stdin.write(s + '\n')

    def _sync(self):
        self._send('(echo "SYNC")')
        self.p.stdin.flush()
        out = []
        while True:
            line = self.p.stdout.readline()
            if line == '':
                raise SolverError('%s died: %s' % (self.name, ''.join(out)))
            line = line.strip()
            if line in ('SYNC', '"SYNC"'):
                break
            if line:
                out.append(line)
        for l in out:
            if '(error' in l:
                raise SolverError('%s: %s' % (self.name, l))
        return out

    def define(self, text):
        self._send(text)
        self._sync()

    def push(self):
        self._send('(push 1)')

    def pop(self):
        self._send('(pop 1)')
        self._sync()

    def check(self, asserts, model_of=()):
        """asserts: list of SMT-LIB assertion bodies, checked inside a push/pop."""
        t0 = time.time()
        self._send('(push 1)')
        for a in asserts:
            self._send('(assert %s)' % a)
        self._send('(check-sat)')
        out = self._sync()
        res = out[-1] if out else 'unknown'
        model = {}
        if res == 'sat' and model_of:
            self._send('(get-value (%s))' % ' '.join(model_of))
            txt = ' '.join(self._sync())
            for m in re.finditer(r'\(\s*([^\s()]+)\s+(#b[01]+|#x[0-9a-fA-F]+|true|false|\(_ bv(\d+) \d+\))\s*\)', txt):
                v = m.group(2)
                if v.startswith('#b'):
                    model[m.group(1)] = int(v[2:], 2)
                elif v.startswith('#x'):
                    model[m.group(1)] = int(v[2:], 16)
                elif v.startswith('(_ bv'):
                    model[m.group(1)] = int(m.group(3))
                else:
                    model[m.group(1)] = (v == 'true')
        self._send('(pop 1)')
        self._sync()
        dt = time.time() - t0
        self.queries += 1
        self.time += dt
        if res not in ('sat', 'unsat'):
            res = 'unknown'
        return res, model

    def close(self):
        try:
            self._send('(exit)')
            self.p.stdin.flush()
            self.p.wait(timeout=5)
        except Exception:
            self.p.kill()


def bv(val, width):
    return '(_ bv%d %d)' % (val, width)


def ite_table(var, entries, width_in, default):
    """Nested ite: (ite (= var k) v ...) for k,v in entries."""
    s = default
    for k, v in reversed(list(entries)):
        s = '(ite (= %s %s) %s %s)' % (var, bv(k, width_in), v, s)
    return s
