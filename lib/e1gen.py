"""Engine E1: generator of Kani harness files over the *real emitted module*.

For a grammar G and the module text emitted for it by the current /repo tree, writes a
self-contained Rust file: the emitted text verbatim inside `mod g` (plus three injected
`use` lines that swap Vec/Box/vec! for the verification shim), a counting token iterator,
oracle tables computed by the independent reference (lib/lrref.py), a tree walker generated
from G's *declarations*, and one #[kani::proof] per input length n.
"""
from __future__ import annotations
import itertools
import os
import re

from grammar import Grammar
from lrref import CFG, canonical_lr1, lalr_from_lr1, tables, lr_run, classify, derivations

PAYLOAD_TYPE = 'crate::payload::P'
SKIP, END, LEAF_UNIT, DEEP = 0xFE, 0xFF, 0xFD, 0xFC
STEP_DEPTH = 3


class OracleError(Exception):
    pass


def all_strings(T, n):
    return itertools.product(range(T), repeat=n)


def str_index(w, T):
    idx = 0
    for k in w:
        idx = idx * T + k
    return idx


class Oracle:
    """Per (grammar, n): ACCEPT / ERRPOS / expected trace for every kind string of length n."""

    def __init__(self, g: Grammar, n: int, ref=None):
        self.g, self.n = g, n
        cfg = self.cfg = CFG(g)
        if ref is None:
            lr1 = canonical_lr1(cfg)
            la = lalr_from_lr1(lr1)
            ref = (lr1, tables(lr1), la, tables(la))
        lr1, (a1, g1, c1), la, (a2, g2, c2) = ref
        if c2:
            raise OracleError('reference LALR(1) automaton has conflicts; grammar out of scope')
        all_productive = all(cfg.productive)
        T = cfg.T
        self.count = T ** n
        self.accept = []
        self.errpos = []
        self.traces = []
        self.max_steps = 0
        self.max_depth = 0
        self.n_accept = self.n_err = self.n_eof = 0
        rules = g.rules()
        for w in all_strings(T, n):
            # reference LR runs (canonical LR(1) for the stop index; LALR for step counts)
            r1 = lr_run(cfg, a1, g1, w)
            r2 = self._lalr_run(a2, g2, w)
            self.max_steps = max(self.max_steps, r2[2])
            self.max_depth = max(self.max_depth, r2[3])
            if all_productive:
                c = classify(cfg, list(w))
                lrc = ('ok', n) if r1[0] == 'ok' else (('eof', n) if r1[1] == n else ('err', r1[1]))
                if c != lrc:
                    raise OracleError('Earley and canonical-LR(1) references disagree on %r: %r vs %r' % (w, c, lrc))
            else:
                c = ('ok', n) if r1[0] == 'ok' else (('eof', n) if r1[1] == n else ('err', r1[1]))
            if c[0] == 'ok':
                ds = derivations(cfg, list(w), limit=2)
                if len(ds) != 1:
                    raise OracleError('reference finds %d derivations of accepted string %r' % (len(ds), w))
                self.accept.append(1)
                self.errpos.append(n)
                self.traces.append(self._trace(ds[0], rules))
                self.n_accept += 1
            else:
                self.accept.append(0)
                self.errpos.append(c[1])
                self.traces.append([])
                if c[0] == 'eof':
                    self.n_eof += 1
                else:
                    self.n_err += 1
        self.trace_cap = max([len(t) for t in self.traces] + [1])

    def _lalr_run(self, action, goto, w):
        cfg = self.cfg
        stack = [0]
        i = steps = depth = 0
        while True:
            steps += 1
            depth = max(depth, len(stack))
            if steps > 10000:
                raise OracleError('reference parser does not terminate')
            q = w[i] if i < len(w) else cfg.EOF
            a = action[stack[-1]][q]
            if a[0] == 's':
                stack.append(a[1]); i += 1
            elif a[0] == 'r':
                l, rhs = cfg.rules[a[1]]
                if rhs:
                    del stack[-len(rhs):]
                gt = goto[stack[-1]][l]
                if gt is None:
                    return ('err', i, steps, depth)
                stack.append(gt)
            elif a[0] == 'acc':
                return ('ok', i, steps, depth)
            else:
                return ('err', i, steps, depth)

    def _trace(self, tree, rules):
        out = []

        def walk(t):
            r, kids = t
            out.append(r)
            fs = rules[r].fieldset
            for f, k in zip(fs.fields, kids):
                if not f.used:
                    out.append(SKIP)
                elif k[0] == 't':
                    ty = dict(self.g.terminals)[f.sym.name]
                    out.append(LEAF_UNIT if ty == '()' else 0x80 + k[1])
                else:
                    walk(k)
        walk(tree)
        if any(r >= 0x80 for r in out if r not in (SKIP, LEAF_UNIT) and r < 0x80) or len(rules) > 0x7F:
            raise OracleError('too many rules for the trace encoding')
        return out


# ----------------------------------------------------------------------------
# Rust text generation
# ----------------------------------------------------------------------------

def walker_module(g: Grammar, extra='') -> str:
    return ('\npub mod verif_walk {\n    #![allow(unused_imports)]\n    use super::*;\n    use crate::{Trace, BoxT};\n'
            + walker_src(g) + '\n' + extra + '\n}\n')


def inject_shim(rust: str) -> str:
    marker = '#![allow(dead_code)]\n'
    if marker not in rust:
        raise OracleError('emitted module lacks the expected inner attributes')
    return rust.replace(marker, marker + 'use crate::vstd::{Vec, Box};\nuse crate::vvec as vec;\n', 1)


def walker_src(g: Grammar, G='super::') -> str:
    """Tree walker generated from the declarations: explicit, exhaustive patterns and type ascriptions.
    It is appended to the emitted text as a child module (`g::verif_walk`) because kiki emits tuple
    structs with private fields (defect D9), which only a descendant module can destructure."""
    types = dict(g.terminals)
    out = []
    for nt in g.nonterminals:
        rules_of = [r for r in g.rules() if r.type_name == nt.name]
        out.append('pub fn walk_%s(node: &%s%s, tr: &mut Trace, depth: u32) {' % (nt.name, G, nt.name))
        out.append('    if depth == 0 { tr.push(%d, 0); return; }' % DEEP)

        def body(rule, binder_prefix):
            fs = rule.fieldset
            lines = ['tr.push(%d, 0);' % rule.index]
            for i, f in enumerate(fs.fields):
                if not f.used:
                    lines.append('tr.push(%d, 0);' % SKIP)
                    continue
                var = '%s%d' % (binder_prefix, i)
                if f.sym.kind == 'N':
                    lines.append('let %s: &BoxT<%s%s> = %s;' % (var, G, f.sym.name, var))
                    lines.append('walk_%s(&**%s, tr, depth - 1);' % (f.sym.name, var))
                else:
                    ty = types[f.sym.name]
                    lines.append('let %s: &%s = %s;' % (var, ty, var))
                    if ty == '()':
                        lines.append('tr.push(%d, 0);' % LEAF_UNIT)
                    else:
                        lines.append('tr.push(0x80 | %s.tag, %s.val);' % (var, var))
            return lines

        def pattern(path, fs, binder_prefix):
            used = [(i, f) for i, f in enumerate(fs.fields) if f.used]
            if not used:
                return path
            if fs.kind == 'named':
                return '%s { %s }' % (path, ', '.join('%s: %s%d' % (f.name, binder_prefix, i) for i, f in used))
            return '%s(%s)' % (path, ', '.join('%s%d' % (binder_prefix, i) for i, f in used))
        if nt.kind == 'struct':
            r = rules_of[0]
            out.append('    let %s = node;' % pattern(G + nt.name, r.fieldset, 'x'))
            out += ['    ' + l for l in body(r, 'x')]
        elif not rules_of:
            out.append('    match *node {}')
        else:
            out.append('    match node {')
            for r in rules_of:
                out.append('        %s => {' % pattern('%s%s::%s' % (G, nt.name, r.variant), r.fieldset, 'x'))
                out += ['            ' + l for l in body(r, 'x')]
                out.append('        }')
            out.append('    }')
        out.append('}')
    return '\n'.join(out)


# ----------------------------------------------------------------------------
# Reduce-step harnesses: ONE reduction from a stack whose top |rhs| nodes are the minimal trees of
# the rhs symbols (arbitrary payload bytes).  Covers every rule of any length, which whole-input
# runs bounded at n <= 4 tokens cannot (e.g. a 13-symbol production).
# ----------------------------------------------------------------------------

class MinTrees:
    def __init__(self, g: Grammar):
        self.g = g
        self.rules = g.rules()
        self.types = dict(g.terminals)
        self.by_lhs = {}
        for r in self.rules:
            self.by_lhs.setdefault(r.lhs, []).append(r)
        # minimal size (number of leaves+nodes) per nonterminal, by fixpoint
        INF = 10 ** 9
        size = {nt.name: INF for nt in g.nonterminals}
        best = {}
        changed = True
        while changed:
            changed = False
            for r in self.rules:
                tot = 1
                for sy in r.rhs:
                    tot += 1 if sy.kind == 'T' else size[sy.name]
                    if tot >= INF:
                        break
                if tot < size[r.lhs]:
                    size[r.lhs] = tot; best[r.lhs] = r; changed = True
        self.size, self.best, self.INF = size, best, INF

    def productive_rule(self, r):
        return all(sy.kind == 'T' or self.size[sy.name] < self.INF for sy in r.rhs)

    def build_rule(self, r, ctr, G='super::', depth=64):
        """(rust constructor expression, expected trace list) for a node built by rule r; ctr = [next leaf tag].
        The walker stops at `depth` levels (marker DEEP); the expression is always complete."""
        fs = r.fieldset
        trace = [r.index]
        args = []
        for f in fs.fields:
            if f.sym.kind == 'T':
                ty = self.types[f.sym.name]
                if ty == '()':
                    expr = '()'
                    code = LEAF_UNIT
                else:
                    tag = ctr[0]; ctr[0] += 1
                    expr = 'crate::payload::P { tag: %d, val: vals[%d] }' % (tag, tag)
                    code = 0x80 + tag
                if f.used:
                    trace.append(code)
                    args.append((f, expr))
                else:
                    trace.append(SKIP)
            else:
                sub_expr, sub_trace = self.build_rule(self.best[f.sym.name], ctr, G, depth - 1)
                if f.used:
                    trace += sub_trace
                    args.append((f, 'Box::new(%s)' % sub_expr))
                else:
                    trace.append(SKIP)
        if depth <= 0:
            trace = [DEEP]
        path = G + r.type_name + ('::' + r.variant if r.variant else '')
        if not args:
            expr = path
        elif fs.kind == 'named':
            expr = '%s { %s }' % (path, ', '.join('%s: %s' % (f.name, e) for f, e in args))
        else:
            expr = '%s(%s)' % (path, ', '.join(e for f, e in args))
        return expr, trace


def reduce_steps(g: Grammar, e):
    """Returns (rust text to put inside g::verif_walk, [(rule index, n_payload_leaves, trace_len)])."""
    M = MinTrees(g)
    types = M.types
    tnames = [t for t, _ in g.terminals]
    out = []
    meta = []
    for r in M.rules:
        if not M.productive_rule(r):
            continue
        ctr = [0]
        pushes = []
        trace = [r.index]
        for f in r.fieldset.fields:
            if f.sym.kind == 'T':
                ty = types[f.sym.name]
                if ty == '()':
                    val = '()'
                    code = LEAF_UNIT
                else:
                    tag = ctr[0]; ctr[0] += 1
                    val = 'crate::payload::P { tag: %d, val: vals[%d] }' % (tag, tag)
                    code = 0x80 + tag
                pushes.append('nodes.push(%s::%s(%s));' % (e.node_enum, f.sym.name, val))
                trace.append(code if f.used else SKIP)
            else:
                sub_expr, sub_trace = M.build_rule(M.best[f.sym.name], ctr, depth=STEP_DEPTH - 1)
                pushes.append('nodes.push(%s::%s(%s));' % (e.node_enum, f.sym.name, sub_expr))
                if f.used:
                    trace += sub_trace
                else:
                    trace.append(SKIP)
        nleaves = ctr[0]
        k = len(r.fieldset.fields)
        lhs_idx = [nt.name for nt in g.nonterminals].index(r.lhs)
        body = []
        body.append('pub fn reduce_step_r%d(vals: &[u8; %d], tr: &mut Trace) -> bool {' % (r.index, max(nleaves, 1)))
        body.append('    let mut states: Vec<%s> = Vec::new();' % e.state_enum)
        body.append('    let mut i = 0; while i < %d { states.push(%s::S0); i += 1; }' % (k + 1, e.state_enum))
        body.append('    let mut nodes: Vec<%s> = Vec::new();' % e.node_enum)
        body += ['    ' + p_ for p_ in pushes]
        body.append('    let (node, kind) = pop_and_reduce(&mut states, &mut nodes, %s::R%d);' % (e.rule_enum, r.index))
        body.append('    assert!(states.len() == 1, "C01 reduce does not pop |rhs| states");')
        body.append('    assert!(nodes.len() == 0, "C01 reduce does not pop |rhs| nodes");')
        body.append('    assert!(kind as usize == %d, "C01 reduce returns the wrong nonterminal kind");' % lhs_idx)
        body.append('    match &node {')
        body.append('        %s::%s(x) => { walk_%s(x, tr, %d); true }' % (e.node_enum, r.lhs, r.lhs, STEP_DEPTH))
        body.append('        _ => false,')
        body.append('    }')
        body.append('}')
        out.append('\n'.join(body))
        meta.append((r.index, nleaves, trace))
    return '\n'.join(out), meta


STEP_KANI_SRC = r'''
static STEP_EXPECT_%(r)d: [u8; %(tl)d] = [%(trace)s];

fn run_reduce_step_%(r)d(vals: [u8; %(nl)d]) {
    let mut tr = Trace::new();
    let ok = g::verif_walk::reduce_step_r%(r)d(&vals, &mut tr);
    assert!(ok, "C02 reduce builds a node of another type");
    assert!(!tr.overflow && tr.len == %(tl)d, "C02 reduce builds a node with missing or extra children");
    let mut k = 0;
    while k < %(tl)d {
        let e = STEP_EXPECT_%(r)d[k];
        assert!(tr.code[k] == e, "C02 reduce puts a child into the wrong field (or drops / keeps the wrong one)");
        if e >= 0x80 && e < 0xFC {
            assert!(tr.val[k] == vals[(e - 0x80) as usize], "C02 reduce modifies a payload");
        }
        k += 1;
    }
}

#[cfg(kani)]
#[kani::proof]
#[kani::unwind(%(unwind)d)]
fn e1_reduce_step_r%(r)d() {
    let vals: [u8; %(nl)d] = kani::any();
    run_reduce_step_%(r)d(vals);
    kani::cover!(true, "WITNESS reduce step returns");
}
'''

COMMON_SRC = r'''
pub mod payload {
    // No derives at all: the emitted parser may only move payloads (C05 "no trait bounds").
    pub struct P { pub tag: u8, pub val: u8 }
}

pub const TRACE_CAP: usize = %(trace_cap)d;
pub struct Trace { pub code: [u8; TRACE_CAP], pub val: [u8; TRACE_CAP], pub len: usize, pub overflow: bool }
impl Trace {
    pub fn new() -> Self { Trace { code: [0xFF; TRACE_CAP], val: [0; TRACE_CAP], len: 0, overflow: false } }
    pub fn push(&mut self, c: u8, v: u8) {
        if self.len < TRACE_CAP { self.code[self.len] = c; self.val[self.len] = v; self.len += 1; } else { self.overflow = true; }
    }
}

pub const T: usize = %(T)d;

/// Lazy, side-effecting token source: token i is built only when pulled; every call is counted.
pub struct TokIter<'a, const N: usize> { pub kinds: [u8; N], pub vals: [u8; N], pub i: usize, pub pulls: &'a mut usize }
impl<'a, const N: usize> Iterator for TokIter<'a, N> {
    type Item = g::%(term_enum)s;
    fn next(&mut self) -> Option<g::%(term_enum)s> {
        *self.pulls += 1;
        if self.i >= N { return None; }
        let k = self.kinds[self.i];
        let p_tag = self.i as u8;
        let p_val = self.vals[self.i];
        self.i += 1;
        Some(make_token(k, p_tag, p_val))
    }
}

pub fn make_token(k: u8, tag: u8, val: u8) -> g::%(term_enum)s {
    let _ = (tag, val);
    match k {
%(make_arms)s
        _ => unreachable!(),
    }
}

/// (kind, tag, val) of a token, by exhaustive match on the public enum.
pub fn token_view(t: &g::%(term_enum)s) -> (u8, u8, u8) {
    match t {
%(view_arms)s
    }
}

'''


def common_src(g: Grammar, trace_cap: int) -> str:
    make_arms, view_arms = [], []
    for i, (t, ty) in enumerate(g.terminals):
        if ty == '()':
            make_arms.append('        %d => g::%s::%s(()),' % (i, g.term_enum, t))
            view_arms.append('        g::%s::%s(()) => (%d, 0xEE, 0),' % (g.term_enum, t, i))
        else:
            make_arms.append('        %d => g::%s::%s(payload::P { tag, val }),' % (i, g.term_enum, t))
            view_arms.append('        g::%s::%s(p) => { let p: &payload::P = p; (%d, p.tag, p.val) }' % (g.term_enum, t, i))
    if not g.terminals:
        view_arms.append('        _ => unreachable!(),')
    return COMMON_SRC % {'trace_cap': trace_cap, 'T': len(g.terminals), 'term_enum': g.term_enum,
                         'make_arms': '\n'.join(make_arms), 'view_arms': '\n'.join(view_arms)}


def rust_u8_table(name, rows):
    if rows and isinstance(rows[0], list):
        w = len(rows[0])
        body = ',\n'.join('    [' + ','.join(str(x) for x in r) + ']' for r in rows)
        return 'static %s: [[u8; %d]; %d] = [\n%s\n];\n' % (name, w, len(rows), body)
    return 'static %s: [u8; %d] = [%s];\n' % (name, len(rows), ','.join(str(x) for x in rows))


HARNESS_SRC = r'''
%(tables)s

fn run_and_check_%(n)d(kinds: [u8; %(n)d], vals: [u8; %(n)d]) -> u8 {
    let mut idx: usize = 0;
    let mut i = 0;
    while i < %(n)d { idx = idx * T + kinds[i] as usize; i += 1; }
    let mut pulls: usize = 0;
    let it = TokIter::<%(n)d> { kinds, vals, i: 0, pulls: &mut pulls };
    let result: Result<g::%(start)s, Option<g::%(term_enum)s>> = g::parse(it);
    let want_accept = ACCEPT_%(n)d[idx] == 1;
    let errpos = ERRPOS_%(n)d[idx] as usize;
    match &result {
        Ok(tree) => {
            // C01: accepted iff derivable
            assert!(want_accept, "C01 accepted a non-sentence");
            // C03 (consumption): the end of input must have been observed, nothing more
            assert!(pulls == %(n)d + 1, "C03 pulls on accept");
            // C02: faithful derivation tree with the original payloads
            let mut tr = Trace::new();
            g::verif_walk::walk_%(start)s(tree, &mut tr, 64);
            assert!(!tr.overflow, "C02 tree larger than any derivation of this input");
            let mut k = 0;
            while k < TRACE_CAP {
                let e = EXPECT_%(n)d[idx][k];
                if e == 0xFF {
                    assert!(k == tr.len, "C02 tree has extra nodes");
                    break;
                }
                assert!(k < tr.len, "C02 tree is missing nodes");
                if e >= 0x80 && e < 0xFC {
                    let pos = (e - 0x80) as usize;
                    assert!(tr.code[k] == e, "C02 field holds the payload of another token");
                    assert!(tr.val[k] == vals[pos], "C02 payload modified");
                } else {
                    assert!(tr.code[k] == e, "C02 wrong production / field shape");
                }
                k += 1;
            }
            if k == TRACE_CAP { assert!(tr.len == TRACE_CAP, "C02 tree has extra nodes"); }
            1
        }
        Err(Some(t)) => {
            assert!(!want_accept, "C01 rejected a sentence");
            assert!(errpos < %(n)d, "C03 reported a token although the input is a proper prefix of a sentence");
            let (k, tag, val) = token_view(t);
            assert!(k == kinds[errpos], "C03 reported token has the wrong kind");
            assert!(tag == 0xEE || tag as usize == errpos, "C03 reported token is not the first offending one");
            assert!(tag == 0xEE || val == vals[errpos], "C03 reported token is not the original object");
            assert!(pulls == errpos + 1, "C03 pulled beyond (or not up to) the reported token");
            2
        }
        Err(None) => {
            assert!(!want_accept, "C01 rejected a sentence");
            assert!(errpos == %(n)d, "C03 reported end of input although an earlier token is offending");
            assert!(pulls == %(n)d + 1, "C03 pulls on unexpected end of input");
            3
        }
    }
}
'''

KANI_SPLIT_SRC = r'''
#[cfg(kani)]
#[kani::proof]
#[kani::unwind(%(unwind)d)]
fn e1_parse_n%(n)d_p%(pname)s() {
    let mut kinds: [u8; %(n)d] = kani::any();
    let vals: [u8; %(n)d] = kani::any();
%(fix)s
    let mut i = 0;
    while i < %(n)d { kani::assume((kinds[i] as usize) < T); i += 1; }
    let outcome = run_and_check_%(n)d(kinds, vals);
%(covers)s
}
'''

KANI_SRC = r'''
#[cfg(kani)]
#[kani::proof]
#[kani::unwind(%(unwind)d)]
fn e1_parse_n%(n)d() {
    let kinds: [u8; %(n)d] = kani::any();
    let vals: [u8; %(n)d] = kani::any();
    let mut i = 0;
    while i < %(n)d { kani::assume((kinds[i] as usize) < T); i += 1; }
    let outcome = run_and_check_%(n)d(kinds, vals);
%(covers)s
}

#[cfg(kani)]
#[kani::proof]
#[kani::unwind(%(unwind)d)]
fn e1_twin_n%(n)d_must_fail() {
    let kinds: [u8; %(n)d] = kani::any();
    let vals: [u8; %(n)d] = kani::any();
    let mut i = 0;
    while i < %(n)d { kani::assume((kinds[i] as usize) < T); i += 1; }
    let outcome = run_and_check_%(n)d(kinds, vals);
    assert!(outcome == 0, "EXPECTED-FAIL: parse returned");
}
'''

NATIVE_MAIN = r'''
pub struct RawIter<'a> { pub kinds: Vec<u8>, pub i: usize, pub pulls: &'a mut usize }
impl<'a> Iterator for RawIter<'a> {
    type Item = g::%(term_enum)s;
    fn next(&mut self) -> Option<g::%(term_enum)s> {
        *self.pulls += 1;
        if self.i >= self.kinds.len() { return None; }
        let k = self.kinds[self.i];
        let t = make_token(k, self.i as u8, 0);
        self.i += 1;
        Some(t)
    }
}

fn main() {
    // usage: replay <n> <kinds comma separated> <vals comma separated>   |   replay raw <kinds comma separated>
    let a: Vec<String> = std::env::args().collect();
    if a[1] == "raw" {
        let kinds: Vec<u8> = if a.len() < 3 || a[2].is_empty() { vec![] } else { a[2].split(',').map(|x| x.parse().unwrap()).collect() };
        let mut pulls = 0usize;
        let r = g::parse(RawIter { kinds, i: 0, pulls: &mut pulls });
        match &r {
            Ok(_) => println!("RAW ok pulls={}", pulls),
            Err(Some(t)) => { let (k, tag, _) = token_view(t); println!("RAW err kind={} pulls={} tag={}", k, pulls, tag); }
            Err(None) => println!("RAW eof pulls={}", pulls),
        }
        return;
    }
    let n: usize = a[1].parse().unwrap();
    let kinds: Vec<u8> = if a[2].is_empty() { vec![] } else { a[2].split(',').map(|x| x.parse().unwrap()).collect() };
    let vals: Vec<u8> = if a[3].is_empty() { vec![] } else { a[3].split(',').map(|x| x.parse().unwrap()).collect() };
    let outcome = match n {
%(arms)s
        _ => panic!("length not built"),
    };
    println!("OUTCOME {}", outcome);
}
'''


def build_raw_native(g: Grammar, rust: str):
    """Unshimmed emitted module + a main that runs `parse` on a kind string (no oracle tables):
    usable for any grammar generate accepted, LALR(1) or not."""
    parts = ['#![allow(dead_code, unused_variables, unused_mut, non_snake_case, unreachable_patterns, unused_imports)]\n']
    parts.append('pub type BoxT<T> = std::boxed::Box<T>;\n')
    parts.append('pub mod g {\n' + rust + walker_module(g) + '\n}\n')
    parts.append(common_src(g, 1))
    parts.append(NATIVE_MAIN % {'arms': '        usize::MAX => 0u8,', 'term_enum': g.term_enum})
    return ''.join(parts)


def build_step_source(g: Grammar, rust: str, mode='kani'):
    """Source with one reduce-step harness per (productive) rule.  Returns (text, meta)."""
    from extract import extract
    e = extract(rust)
    steps_src, meta = reduce_steps(g, e)
    maxrhs = max([len(r.rhs) for r in g.rules()] + [1])
    trace_cap = max([len(t) for _, _, t in meta] + [1])
    parts = ['#![allow(dead_code, unused_variables, unused_mut, non_snake_case, unreachable_patterns, unused_imports)]\n']
    if mode == 'kani':
        parts.append('pub const SHIM_CAP: usize = %d;\n' % (maxrhs + 3))
        parts.append(open(os.path.join(os.path.dirname(os.path.dirname(os.path.abspath(__file__))), 'harness', 'e1', 'vstd.rs')).read())
        parts.append('pub type BoxT<T> = crate::vstd::Box<T>;\n')
        parts.append('pub mod g {\n' + inject_shim(rust) + walker_module(g, steps_src) + '\n}\n')
    else:
        parts.append('pub type BoxT<T> = std::boxed::Box<T>;\n')
        parts.append('pub mod g {\n' + rust + walker_module(g, steps_src) + '\n}\n')
    parts.append(common_src(g, trace_cap))
    out_meta = []
    for r, nl, trace in meta:
        parts.append(STEP_KANI_SRC % {'r': r, 'nl': max(nl, 1), 'tl': len(trace), 'trace': ','.join(map(str, trace)),
                                      'unwind': max(len(trace), maxrhs + 1) + 3})
        out_meta.append({'rule': r, 'payload_leaves': nl, 'trace_len': len(trace)})
    if mode == 'native':
        arms = []
        for r, nl, trace in meta:
            arms.append('        %d => { let mut v = [0u8; %d]; for i in 0..%d.min(vals.len()) { v[i] = vals[i]; } run_reduce_step_%d(v); }'
                        % (r, max(nl, 1), max(nl, 1), r))
        parts.append('''
fn main() {
    // usage: step <rule> <vals comma separated>
    let a: Vec<String> = std::env::args().collect();
    let r: usize = a[1].parse().unwrap();
    let vals: Vec<u8> = if a.len() < 3 || a[2].is_empty() { vec![] } else { a[2].split(',').map(|x| x.parse().unwrap()).collect() };
    match r {
%s
        _ => panic!("no such rule"),
    }
    println!("STEP OK");
}
''' % '\n'.join(arms))
    return ''.join(parts), out_meta


def build_source(g: Grammar, rust: str, lengths, mode='kani', shim_cap=None, ref=None, split=0):
    """Returns (text, meta).  mode 'kani': shimmed module + proofs; 'native': real std containers + main."""
    oracles = {n: Oracle(g, n, ref) for n in lengths}
    trace_cap = max(o.trace_cap for o in oracles.values())
    max_steps = max(o.max_steps for o in oracles.values())
    max_depth = max(o.max_depth for o in oracles.values())
    cap = shim_cap or (max_depth + 2)
    parts = ['#![allow(dead_code, unused_variables, unused_mut, non_snake_case, unreachable_patterns, unused_imports)]\n']
    if mode == 'kani':
        parts.append('pub const SHIM_CAP: usize = %d;\n' % cap)
        parts.append(open(os.path.join(os.path.dirname(os.path.dirname(os.path.abspath(__file__))), 'harness', 'e1', 'vstd.rs')).read())
        parts.append('pub type BoxT<T> = crate::vstd::Box<T>;\n')
        parts.append('pub mod g {\n' + inject_shim(rust) + walker_module(g) + '\n}\n')
    else:
        parts.append('pub type BoxT<T> = std::boxed::Box<T>;\n')
        parts.append('pub mod g {\n' + rust + walker_module(g) + '\n}\n')
    parts.append(common_src(g, trace_cap))
    meta = {'lengths': {}, 'trace_cap': trace_cap, 'shim_cap': cap}
    for n in lengths:
        o = oracles[n]
        exp = [t + [END] * (trace_cap - len(t)) for t in o.traces]
        tabs = rust_u8_table('ACCEPT_%d' % n, o.accept) + rust_u8_table('ERRPOS_%d' % n, o.errpos) + rust_u8_table('EXPECT_%d' % n, exp)
        parts.append(HARNESS_SRC % {'n': n, 'tables': tabs, 'start': g.start, 'term_enum': g.term_enum})
        unwind = max(o.max_steps + 2, trace_cap + 2, n + 3)
        if mode == 'kani':
            covers = []
            if o.n_accept:
                covers.append('    kani::cover!(outcome == 1, "WITNESS accept");')
            if o.n_err:
                covers.append('    kani::cover!(outcome == 2, "WITNESS err-token");')
            if o.n_eof:
                covers.append('    kani::cover!(outcome == 3, "WITNESS err-eof");')
            parts.append(KANI_SRC % {'n': n, 'unwind': unwind, 'covers': '\n'.join(covers)})
            # case split on the first `split` token kinds: one harness per concrete prefix
            k = min(split, n)
            meta.setdefault('split_harnesses', {})[n] = []
            if k > 0:
                Tn = len(g.terminals)
                for prefix in itertools.product(range(Tn), repeat=k):
                    # covers restricted to what the oracle says exists under this prefix
                    base = str_index(prefix, Tn) * (Tn ** (n - k))
                    sub = range(base, base + Tn ** (n - k))
                    cv = []
                    if any(o.accept[i] for i in sub):
                        cv.append('    kani::cover!(outcome == 1, "WITNESS accept");')
                    if any((not o.accept[i]) and o.errpos[i] < n for i in sub):
                        cv.append('    kani::cover!(outcome == 2, "WITNESS err-token");')
                    if any((not o.accept[i]) and o.errpos[i] == n for i in sub):
                        cv.append('    kani::cover!(outcome == 3, "WITNESS err-eof");')
                    pname = '_'.join(map(str, prefix))
                    fix = '\n'.join('    kinds[%d] = %d;' % (i, v) for i, v in enumerate(prefix))
                    parts.append(KANI_SPLIT_SRC % {'n': n, 'unwind': unwind, 'covers': '\n'.join(cv), 'pname': pname, 'fix': fix})
                    meta['split_harnesses'][n].append('e1_parse_n%d_p%s' % (n, pname))
        meta['lengths'][n] = {'strings': o.count, 'accepted': o.n_accept, 'err_token': o.n_err, 'err_eof': o.n_eof,
                              'unwind': unwind, 'max_driver_steps': o.max_steps}
    if mode == 'native':
        arms = []
        for n in lengths:
            arms.append('        %d => { let mut k = [0u8; %d]; let mut v = [0u8; %d]; for i in 0..%d { k[i] = kinds[i]; v[i] = vals[i]; } run_and_check_%d(k, v) }'
                        % (n, n, n, n, n))
        parts.append(NATIVE_MAIN % {'arms': '\n'.join(arms), 'term_enum': g.term_enum})
    return ''.join(parts), meta
