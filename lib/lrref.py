"""Reference parsing theory, independent of kiki:

* FIRST / nullable / productive sets
* canonical LR(1) collection (textbook closure/goto on item sets)
* LALR(1) automaton = canonical LR(1) merged by LR(0) core (the *definition*, a
  different algorithm from kiki's merge-on-the-fly worklist)
* ACTION/GOTO tables with conflict list
* Earley recogniser with prefix-viability and a derivation enumerator

Symbols are integers: terminals 0..T-1, EOF = T, nonterminals T+1+k.
Rules: list of (lhs_nt_index, [symbol ints]); the augmented rule has index R
(= len(rules)) and is S' -> start.
"""
from __future__ import annotations
from functools import lru_cache
from typing import List, Tuple, Dict


class CFG:
    def __init__(self, g):
        """g: grammar.Grammar"""
        self.g = g
        self.tnames = g.term_names()
        self.ntnames = g.nt_names()
        self.T = len(self.tnames)
        self.NT = len(self.ntnames)
        self.EOF = self.T
        tix = {n: i for i, n in enumerate(self.tnames)}
        nix = {n: i for i, n in enumerate(self.ntnames)}
        self.rules: List[Tuple[int, Tuple[int, ...]]] = []
        for r in g.rules():
            rhs = []
            for s in r.rhs:
                if s.kind == 'T':
                    rhs.append(tix[s.name])
                else:
                    rhs.append(self.T + 1 + nix[s.name])
            self.rules.append((nix[r.lhs], tuple(rhs)))
        self.R = len(self.rules)
        self.start = nix[g.start]
        self.by_lhs: Dict[int, List[int]] = {}
        for i, (l, _) in enumerate(self.rules):
            self.by_lhs.setdefault(l, []).append(i)
        self._first()

    def is_t(self, s):
        return s < self.T

    def nt_of(self, s):
        return s - self.T - 1

    def symname(self, s):
        if s < self.T:
            return '$' + self.tnames[s]
        if s == self.T:
            return 'EOF'
        return self.ntnames[s - self.T - 1]

    def rhs(self, r):
        if r == self.R:
            return (self.T + 1 + self.start,)
        return self.rules[r][1]

    def _first(self):
        NT = self.NT
        nullable = [False] * NT
        first = [0] * NT  # bitmask over terminals
        changed = True
        while changed:
            changed = False
            for l, rhs in self.rules:
                m = 0
                allnull = True
                for s in rhs:
                    if self.is_t(s):
                        m |= 1 << s; allnull = False; break
                    k = self.nt_of(s)
                    m |= first[k]
                    if not nullable[k]:
                        allnull = False; break
                if m | first[l] != first[l]:
                    first[l] |= m; changed = True
                if allnull and not nullable[l]:
                    nullable[l] = True; changed = True
        self.nullable = nullable
        self.first = first
        prod = [False] * NT
        changed = True
        while changed:
            changed = False
            for l, rhs in self.rules:
                if not prod[l] and all(self.is_t(s) or prod[self.nt_of(s)] for s in rhs):
                    prod[l] = True; changed = True
        self.productive = prod

    def first_seq(self, seq, la_mask):
        """FIRST(seq . la) as bitmask over terminals + EOF bit."""
        m = 0
        for s in seq:
            if self.is_t(s):
                return m | (1 << s)
            k = self.nt_of(s)
            m |= self.first[k]
            if not self.nullable[k]:
                return m
        return m | la_mask


# ----------------------------------------------------------------------------
# canonical LR(1) and LALR(1)
# ----------------------------------------------------------------------------

class Automaton:
    """states: list of dict core(rule,dot)->la bitmask; trans: list of dict sym->state."""

    def __init__(self, cfg, states, trans):
        self.cfg = cfg
        self.states = states
        self.trans = trans

    def n(self):
        return len(self.states)


def _closure(cfg: CFG, kernel: Dict[Tuple[int, int], int]):
    items = dict(kernel)
    work = list(kernel.keys())
    while work:
        core = work.pop()
        r, d = core
        rhs = cfg.rhs(r)
        if d >= len(rhs) or cfg.is_t(rhs[d]):
            continue
        la = items[core]
        B = cfg.nt_of(rhs[d])
        f = cfg.first_seq(rhs[d + 1:], la)
        for r2 in cfg.by_lhs.get(B, []):
            c2 = (r2, 0)
            old = items.get(c2, 0)
            if old | f != old:
                items[c2] = old | f
                work.append(c2)
    return items


def _goto_kernels(cfg: CFG, items):
    out: Dict[int, Dict[Tuple[int, int], int]] = {}
    for (r, d), la in items.items():
        rhs = cfg.rhs(r)
        if d < len(rhs):
            k = out.setdefault(rhs[d], {})
            k[(r, d + 1)] = k.get((r, d + 1), 0) | la
    return out


def canonical_lr1(cfg: CFG, limit=200000) -> Automaton:
    start = _closure(cfg, {(cfg.R, 0): 1 << cfg.EOF})
    key = lambda it: frozenset(it.items())
    index = {key(start): 0}
    states = [start]
    trans = [dict()]
    work = [0]
    while work:
        i = work.pop()
        for sym, kern in sorted(_goto_kernels(cfg, states[i]).items()):
            tgt = _closure(cfg, kern)
            k = key(tgt)
            j = index.get(k)
            if j is None:
                j = len(states)
                if j > limit:
                    raise RuntimeError('LR(1) collection too large')
                index[k] = j; states.append(tgt); trans.append({}); work.append(j)
            trans[i][sym] = j
    return Automaton(cfg, states, trans)


def lalr_from_lr1(lr1: Automaton) -> Automaton:
    cfg = lr1.cfg
    coreidx = {}
    m = []
    for st in lr1.states:
        k = frozenset(st.keys())
        if k not in coreidx:
            coreidx[k] = len(coreidx)
        m.append(coreidx[k])
    n = len(coreidx)
    states = [dict() for _ in range(n)]
    trans = [dict() for _ in range(n)]
    for i, st in enumerate(lr1.states):
        tgt = states[m[i]]
        for c, la in st.items():
            tgt[c] = tgt.get(c, 0) | la
        for sym, j in lr1.trans[i].items():
            old = trans[m[i]].get(sym)
            assert old is None or old == m[j], 'goto of merged states must agree on cores'
            trans[m[i]][sym] = m[j]
    return Automaton(cfg, states, trans)


ERR, ACC = ('err',), ('acc',)


def tables(aut: Automaton):
    """Returns (action, goto, conflicts). action[s][q] in {('s',j),('r',rule),ACC,ERR};
    goto[s][A] = j or None.  conflicts: list of (state, q, set_of_actions)."""
    cfg = aut.cfg
    nq = cfg.T + 1
    action = []
    goto = []
    conflicts = []
    for s, items in enumerate(aut.states):
        cell = [set() for _ in range(nq)]
        for (r, d), la in items.items():
            rhs = cfg.rhs(r)
            if d < len(rhs):
                if cfg.is_t(rhs[d]):
                    cell[rhs[d]].add(('s', aut.trans[s][rhs[d]]))
            else:
                for q in range(nq):
                    if la >> q & 1:
                        cell[q].add(ACC if r == cfg.R else ('r', r))
        row = []
        for q in range(nq):
            if len(cell[q]) > 1:
                conflicts.append((s, q, cell[q]))
                row.append(('conflict', frozenset(cell[q])))
            elif cell[q]:
                row.append(next(iter(cell[q])))
            else:
                row.append(ERR)
        action.append(row)
        goto.append([aut.trans[s].get(cfg.T + 1 + a) for a in range(cfg.NT)])
    return action, goto, conflicts


def lr_run(cfg: CFG, action, goto, w, start=0, maxsteps=100000):
    """Runs a table-driven LR parse on kind string w. Returns ('ok'|'err', shifted_count, steps)."""
    stack = [start]
    i = 0
    steps = 0
    while True:
        steps += 1
        if steps > maxsteps:
            return ('loop', i, steps)
        q = w[i] if i < len(w) else cfg.EOF
        a = action[stack[-1]][q]
        if a[0] == 's':
            stack.append(a[1]); i += 1
        elif a[0] == 'r':
            l, rhs = cfg.rules[a[1]]
            if rhs:
                del stack[-len(rhs):]
            g = goto[stack[-1]][l]
            if g is None:
                return ('err', i, steps)
            stack.append(g)
        elif a == ACC:
            return ('ok', i, steps)
        else:
            return ('err', i, steps)


# ----------------------------------------------------------------------------
# Earley
# ----------------------------------------------------------------------------

def earley_sets(cfg: CFG, w, restrict_productive=True):
    """Earley item sets S[0..k]; stops early when a set is empty.  Items: (rule, dot, origin).
    If restrict_productive, rules mentioning unproductive nonterminals are dropped, so
    that a non-empty set means the prefix can be extended to a sentence."""
    R = cfg.R

    def ok_rule(r):
        if not restrict_productive or r == R:
            return True
        l, rhs = cfg.rules[r]
        return cfg.productive[l] and all(cfg.is_t(s) or cfg.productive[cfg.nt_of(s)] for s in rhs)
    if restrict_productive and not cfg.productive[cfg.start]:
        return [set()]
    S = [set() for _ in range(len(w) + 1)]
    S[0].add((R, 0, 0))
    for k in range(len(w) + 1):
        work = list(S[k])
        while work:
            r, d, o = work.pop()
            rhs = cfg.rhs(r)
            if d < len(rhs):
                s = rhs[d]
                if not cfg.is_t(s):
                    B = cfg.nt_of(s)
                    for r2 in cfg.by_lhs.get(B, []):
                        if ok_rule(r2):
                            it = (r2, 0, k)
                            if it not in S[k]:
                                S[k].add(it); work.append(it)
                    # nullable completion (Aycock-Horspool style): if B already completed at k
                    for (r3, d3, o3) in list(S[k]):
                        if o3 == k and d3 == len(cfg.rhs(r3)) and r3 != R and cfg.rules[r3][0] == B:
                            it = (r, d + 1, o)
                            if it not in S[k]:
                                S[k].add(it); work.append(it)
            else:
                if r == R:
                    continue
                l = cfg.rules[r][0]
                for (r3, d3, o3) in list(S[o]):
                    rh3 = cfg.rhs(r3)
                    if d3 < len(rh3) and rh3[d3] == cfg.T + 1 + l:
                        it = (r3, d3 + 1, o3)
                        if it not in S[k]:
                            S[k].add(it); work.append(it)
        if k < len(w):
            for (r, d, o) in S[k]:
                rhs = cfg.rhs(r)
                if d < len(rhs) and rhs[d] == w[k]:
                    S[k + 1].add((r, d + 1, o))
            if not S[k + 1]:
                return S[:k + 2]
    return S


def classify(cfg: CFG, w):
    """('ok', n) if w is a sentence; ('err', i) with i the smallest index such that
    w[0..=i] is not a prefix of any sentence; ('eof', n) if w is a proper prefix."""
    S = earley_sets(cfg, w)
    if len(S) < len(w) + 1 or not S[-1]:
        # find first empty set
        for k, s in enumerate(S):
            if not s:
                return ('err', k - 1)
    if (cfg.R, 1, 0) in S[len(w)]:
        return ('ok', len(w))
    return ('eof', len(w))


def derivations(cfg: CFG, w, limit=2):
    """All derivation trees of w from the start symbol (up to `limit`), as nested tuples
    (rule, [children]) where a child is ('t', index) or a subtree.  Memoised span parser."""
    n = len(w)

    @lru_cache(maxsize=None)
    def nt_spans(A, i, j, depth):
        # returns list of trees for A =>* w[i:j]
        out = []
        if depth > 2 * (n + 2) + cfg.NT:
            return ()
        for r in cfg.by_lhs.get(A, []):
            for kids in seq(cfg.rules[r][1], i, j, depth):
                out.append((r, kids))
                if len(out) >= limit:
                    return tuple(out)
        return tuple(out)

    def seq(rhs, i, j, depth):
        if not rhs:
            return [()] if i == j else []
        s = rhs[0]
        res = []
        if cfg.is_t(s):
            if i < j and w[i] == s:
                for rest in seq(rhs[1:], i + 1, j, depth):
                    res.append((('t', i),) + rest)
                    if len(res) >= limit:
                        break
            return res
        A = cfg.nt_of(s)
        for k in range(i, j + 1):
            # avoid infinite recursion on cyclic unit/epsilon derivations: depth bound
            if len(rhs) == 1 and k != j:
                continue
            subs = nt_spans(A, i, k, depth + 1 if (k - i) == (j - i) else 0)
            if not subs:
                continue
            for rest in seq(rhs[1:], k, j, depth):
                for t in subs:
                    res.append((t,) + rest)
                    if len(res) >= limit:
                        return res
        return res

    return list(nt_spans(cfg.start, 0, n, 0))
