"""Shared plumbing for the checks: paths, building the native helper from /repo's
current tree, running it under a watchdog, evidence files, exit protocol."""
from __future__ import annotations
import hashlib
import json
import os
import shutil
import subprocess
import sys
import tempfile
import time

VERIF = os.path.dirname(os.path.dirname(os.path.abspath(__file__)))
REPO = os.environ.get('VERIF_REPO', '/repo')
BUILD = os.environ.get('VERIF_BUILD', os.path.join(VERIF, '.build'))
WORK = os.path.join(BUILD, 'work')
HARNESS_DIR = os.path.join(VERIF, 'harness')
NCPU = int(os.environ.get('VERIF_JOBS', os.cpu_count() or 4))

ENV = dict(os.environ)
ENV.update({'CARGO_NET_OFFLINE': 'true', 'KIKI_VERIF_HARNESS_DIR': HARNESS_DIR, 'CARGO_TERM_COLOR': 'never'})


class Inconclusive(Exception):
    """Infrastructure outcome that is neither a pass nor a violation (exit 2)."""


def seed():
    try:
        return int(os.environ.get('VERIF_SEED', '0'))
    except ValueError:
        return 0


def log(*a):
    print(*a, file=sys.stderr, flush=True)


def sh(cmd, cwd=None, timeout=None, env=None, check=False):
    p = subprocess.run(cmd, cwd=cwd, timeout=timeout, env=env or ENV, stdout=subprocess.PIPE, stderr=subprocess.STDOUT,
                       text=True, errors='replace')
    if check and p.returncode != 0:
        raise Inconclusive('command failed (%d): %s\n%s' % (p.returncode, ' '.join(cmd), p.stdout[-4000:]))
    return p.returncode, p.stdout


_kgen = None


def build_kgen():
    """Builds tools/kgen against /repo's current working tree (hooks on)."""
    global _kgen
    if _kgen:
        return _kgen
    src = os.path.join(VERIF, 'tools', 'kgen')
    lock = os.path.join(REPO, 'Cargo.lock')
    if os.path.exists(lock):
        shutil.copy(lock, os.path.join(src, 'Cargo.lock'))
    tdir = os.path.join(BUILD, 'kgen')
    rc, out = sh(['cargo', 'build', '--offline', '--target-dir', tdir], cwd=src, timeout=900)
    if rc != 0:
        raise Inconclusive('kgen (native helper over /repo/kiki with hooks) does not build:\n' + out[-6000:])
    _kgen = os.path.join(tdir, 'debug', 'kgen')
    return _kgen


def workdir(name):
    d = os.path.join(WORK, name)
    shutil.rmtree(d, ignore_errors=True)
    os.makedirs(d, exist_ok=True)
    return d


def _kgen_out(cmd, path):
    d = os.path.join(WORK, 'kgen_out')
    os.makedirs(d, exist_ok=True)
    return os.path.join(d, '%s.%s.json' % (hashlib.sha1(os.path.abspath(path).encode()).hexdigest()[:16], cmd))


def kgen_one(cmd, path, timeout=20):
    """Runs the real pipeline on one file in a child process under a watchdog.
    Returns dict with status in ok|err|panic|abort|hang|not-utf8."""
    k = build_kgen()
    out = _kgen_out(cmd, path)
    try:
        os.remove(out)
    except FileNotFoundError:
        pass
    try:
        p = subprocess.run([k, cmd, path, out], timeout=timeout, stdout=subprocess.PIPE, stderr=subprocess.STDOUT)
    except subprocess.TimeoutExpired:
        return {'status': 'hang', 'timeout_s': timeout}
    if p.returncode != 0 or not os.path.exists(out):
        return {'status': 'abort', 'returncode': p.returncode, 'output': p.stdout.decode('utf8', 'replace')[-2000:]}
    with open(out, encoding='utf8') as f:
        return json.load(f)


def kgen_many(cmd, paths, timeout_each=20):
    """Batch variant: one helper process per chunk; falls back to one-by-one to isolate
    a crash or hang.  Returns list of result dicts in order."""
    k = build_kgen()
    from concurrent.futures import ThreadPoolExecutor
    results = [None] * len(paths)
    chunks = [list(range(i, len(paths), NCPU)) for i in range(min(NCPU, len(paths)))]

    def run_chunk(ixs):
        with tempfile.NamedTemporaryFile('w', suffix='.lst', delete=False, dir=WORK) as f:
            for i in ixs:
                out = _kgen_out(cmd, paths[i])
                try:
                    os.remove(out)
                except FileNotFoundError:
                    pass
                f.write('%s\t%s\t%s\n' % (cmd, paths[i], out))
            lst = f.name
        try:
            subprocess.run([k, 'batch', lst], timeout=timeout_each * max(1, len(ixs)) / 4 + 30,
                           stdout=subprocess.PIPE, stderr=subprocess.STDOUT)
        except subprocess.TimeoutExpired:
            pass
        os.remove(lst)
        for i in ixs:
            out = _kgen_out(cmd, paths[i])
            if os.path.exists(out):
                try:
                    with open(out, encoding='utf8') as f:
                        results[i] = json.load(f)
                    continue
                except Exception:
                    pass
            results[i] = kgen_one(cmd, paths[i], timeout_each)
    os.makedirs(WORK, exist_ok=True)
    with ThreadPoolExecutor(max_workers=NCPU) as ex:
        list(ex.map(run_chunk, chunks))
    return results


def repo_tree_id():
    """Content hash of the sources the checks depend on (reported in evidence)."""
    h = hashlib.sha256()
    for root, dirs, files in os.walk(os.path.join(REPO, 'kiki')):
        dirs.sort()
        if 'target' in dirs:
            dirs.remove('target')
        for fn in sorted(files):
            p = os.path.join(root, fn)
            h.update(p.encode())
            with open(p, 'rb') as f:
                h.update(f.read())
    return h.hexdigest()[:16]


# ----------------------------------------------------------------------------
# known findings
# ----------------------------------------------------------------------------

def known_findings():
    """Lines `known: property=<id> key=<key> <text>` from /verif/known_findings.txt."""
    out = {}
    p = os.path.join(VERIF, 'known_findings.txt')
    if os.path.exists(p):
        for line in open(p, encoding='utf8'):
            line = line.strip()
            if line.startswith('known:'):
                parts = dict(x.split('=', 1) for x in line.split()[1:3])
                out[(parts.get('property'), parts.get('key'))] = line.split(None, 3)[3] if len(line.split(None, 3)) > 3 else ''
    return out


class Result:
    """Collects the outcome of one check run and writes the evidence file."""

    def __init__(self, prop, tier, level):
        self.prop, self.tier, self.level = prop, tier, level
        self.t0 = time.time()
        self.violations = []      # (key, description, replay_path)
        self.known_hits = []
        self.inconclusive = []
        self.coverage = {}
        self.assumptions = []

    def violation(self, key, desc, replay_obj):
        kf = known_findings()
        if (self.prop, key) in kf:
            self.known_hits.append((key, kf[(self.prop, key)] or desc))
            return
        d = os.path.join(VERIF, 'evidence', 'replay')
        os.makedirs(d, exist_ok=True)
        path = os.path.join(d, '%s_%s.json' % (self.prop, hashlib.sha256(key.encode()).hexdigest()[:10]))
        with open(path, 'w', encoding='utf8') as f:
            json.dump({'property': self.prop, 'key': key, 'description': desc, 'replay': replay_obj}, f, indent=1)
        self.violations.append((key, desc, path))

    def finish(self):
        ev = {
            'property_id': self.prop,
            'tier': self.tier,
            'seed': seed(),
            'level': self.level,
            'coverage': self.coverage,
            'assumptions': self.assumptions,
            'wall_s': round(time.time() - self.t0, 2),
            'violations': len(self.violations),
        }
        ev['coverage']['repo_tree_id'] = repo_tree_id()
        ev['coverage']['known_findings_hit'] = [k for k, _ in self.known_hits]
        ev['coverage']['inconclusive'] = self.inconclusive[:50]
        os.makedirs(os.path.join(VERIF, 'evidence'), exist_ok=True)
        with open(os.path.join(VERIF, 'evidence', self.prop + '.json'), 'w', encoding='utf8') as f:
            json.dump(ev, f, indent=1, ensure_ascii=False)
        for k, d in self.known_hits:
            print('KNOWN-FINDING: property=%s %s' % (self.prop, d))
        for k, d, p in self.violations:
            print('VIOLATION property=%s replay=%s' % (self.prop, p))
            print('  ' + d)
        if self.violations:
            return 1
        if self.inconclusive:
            for m in self.inconclusive[:20]:
                print('INCONCLUSIVE: ' + str(m)[:600])
            return 2
        print('OK property=%s tier=%s wall=%.1fs' % (self.prop, self.tier, time.time() - self.t0))
        return 0
