"""Reference recogniser as a hash-consed Boolean circuit over atoms kind[i]==t.

FULL(a,i,j): nonterminal a derives kind[i..j)
PRE(a,i,j) : kind[i..j) is a prefix of a terminal string derivable from a (productive rules only)

Built natively with structural simplification, then emitted as straight-line C `_Bool`
assignments, so that CBMC spends no symbolic-execution effort on reference loops.
"""
from __future__ import annotations
from lrref import CFG


class Circuit:
    def __init__(self):
        self.nodes = [('const', 0), ('const', 1)]   # id 0 = false, 1 = true
        self.index = {}
        self.FALSE, self.TRUE = 0, 1

    def _mk(self, key):
        i = self.index.get(key)
        if i is None:
            i = len(self.nodes)
            self.nodes.append(key)
            self.index[key] = i
        return i

    def atom(self, pos, t):
        return self._mk(('atom', pos, t))

    def _nary(self, op, xs):
        absorbing, neutral = (self.FALSE, self.TRUE) if op == 'and' else (self.TRUE, self.FALSE)
        flat = set()
        for x in xs:
            if x == absorbing:
                return absorbing
            if x == neutral:
                continue
            n = self.nodes[x]
            if n[0] == op:
                flat.update(n[1])
            else:
                flat.add(x)
        if op == 'and':
            # kind[p]==t1 && kind[p]==t2 with t1 != t2 is false
            seen = {}
            for x in flat:
                n = self.nodes[x]
                if n[0] == 'atom':
                    if seen.setdefault(n[1], n[2]) != n[2]:
                        return self.FALSE
        if not flat:
            return neutral
        if len(flat) == 1:
            return next(iter(flat))
        return self._mk((op, frozenset(flat)))

    def AND(self, *xs):
        return self._nary('and', xs)

    def OR(self, *xs):
        return self._nary('or', xs)

    def emit_c(self, roots, prefix='b'):
        """C statements defining every node reachable from roots, in dependency order."""
        need = set()
        stack = list(roots)
        while stack:
            x = stack.pop()
            if x in need or x < 2:
                continue
            need.add(x)
            n = self.nodes[x]
            if n[0] in ('and', 'or'):
                stack.extend(n[1])

        def name(x):
            return ('0' if x == 0 else '1') if x < 2 else '%s%d' % (prefix, x)
        out = []
        for x in sorted(need):
            n = self.nodes[x]
            if n[0] == 'atom':
                out.append('  const _Bool %s%d = (kind[%d] == %d);' % (prefix, x, n[1], n[2]))
            else:
                op = ' && ' if n[0] == 'and' else ' || '
                out.append('  const _Bool %s%d = %s;' % (prefix, x, op.join(name(c) for c in sorted(n[1]))))
        return '\n'.join(out), name, len(need)


def derivable_lengths(cfg: CFG, N):
    lens = [set() for _ in range(cfg.NT)]
    changed = True
    while changed:
        changed = False
        for l, rhs in cfg.rules:
            cur = {0}
            for s in rhs:
                nxt = set()
                opts = {1} if cfg.is_t(s) else lens[cfg.nt_of(s)]
                for a in cur:
                    for b in opts:
                        if a + b <= N:
                            nxt.add(a + b)
                cur = nxt
                if not cur:
                    break
            if not cur <= lens[l]:
                lens[l] |= cur
                changed = True
    return lens


def build_reference(cfg: CFG, N: int):
    """Returns (circuit, accept_id, [pre_id for j in 0..N]) for start symbol spans [0, j)."""
    C = Circuit()
    lens = derivable_lengths(cfg, N)
    FULL = {}
    PRE = {}

    def full_sym(s, i, j):
        if cfg.is_t(s):
            return C.atom(i, s) if j == i + 1 else C.FALSE
        return FULL.get((cfg.nt_of(s), i, j), C.FALSE)

    def pre_sym(s, i, j):
        if cfg.is_t(s):
            if j == i:
                return C.TRUE
            return C.atom(i, s) if j == i + 1 else C.FALSE
        return PRE.get((cfg.nt_of(s), i, j), C.FALSE)
    rule_ok = [cfg.productive[l] and all(cfg.is_t(s) or cfg.productive[cfg.nt_of(s)] for s in rhs) for l, rhs in cfg.rules]
    for ln in range(0, N + 1):
        for i in range(0, N - ln + 1):
            j = i + ln
            for a in range(cfg.NT):
                if cfg.productive[a] and ln == 0:
                    PRE[(a, i, j)] = C.TRUE
            # iterate to a structural fixpoint for this span
            for _ in range(4 * cfg.NT + 4):
                changed = False
                for r, (l, rhs) in enumerate(cfg.rules):
                    # cur[m]: first p symbols derive kind[i..m)
                    cur = {i: C.TRUE}
                    pre_terms = []
                    for p, s in enumerate(rhs):
                        if rule_ok[r]:
                            for m, cm in cur.items():
                                pre_terms.append(C.AND(cm, pre_sym(s, m, j)))
                        nxt = {}
                        for m, cm in cur.items():
                            for m2 in range(m, j + 1):
                                f = full_sym(s, m, m2)
                                if f != C.FALSE:
                                    t = C.AND(cm, f)
                                    if t != C.FALSE:
                                        nxt[m2] = C.OR(nxt.get(m2, C.FALSE), t)
                        cur = nxt
                        if not cur:
                            break
                    fj = cur.get(j, C.FALSE)
                    if fj != C.FALSE and ln in lens[l]:
                        old = FULL.get((l, i, j), C.FALSE)
                        new = C.OR(old, fj)
                        if new != old:
                            FULL[(l, i, j)] = new; changed = True
                    if rule_ok[r]:
                        old = PRE.get((l, i, j), C.FALSE)
                        new = C.OR(old, fj, *pre_terms)
                        if new != old:
                            PRE[(l, i, j)] = new; changed = True
                if not changed:
                    break
            else:
                raise RuntimeError('reference circuit did not reach a fixpoint')
    S = cfg.start
    accept = FULL.get((S, 0, N), C.FALSE)
    pre = [PRE.get((S, 0, j), C.FALSE) for j in range(N + 1)]
    return C, accept, pre


def eval_circuit(C: Circuit, root, w):
    memo = {}

    def ev(x):
        if x < 2:
            return bool(x)
        if x in memo:
            return memo[x]
        n = C.nodes[x]
        if n[0] == 'atom':
            v = n[1] < len(w) and w[n[1]] == n[2]
        elif n[0] == 'and':
            v = all(ev(c) for c in n[1])
        else:
            v = any(ev(c) for c in n[1])
        memo[x] = v
        return v
    return ev(root)
