"""Grammar corpus: the 'programs' quantifier.

Tier 1: repo example grammars (+ kiki.kiki, parser.kiki)
Tier 2: curated grammars from the literature, in a compact BNF DSL
Tier 3: exhaustive enumeration of tiny grammars
Tier 4: VERIF_SEED-driven random grammars

Every abstract grammar is rendered to .kiki text by grammar.render with
independent knobs (struct/enum, named/tuple, which fields are `_`, layout).
"""
from __future__ import annotations
import glob
import itertools
import os
import random
from grammar import Grammar, Nonterminal, Variant, Fieldset, Field, Sym, read_kiki, render

CURATED = r"""
# name | expectation (ok / conflict) | productions (first lhs is start); lowercase = terminal
parens | ok | E -> | l E r
arith_slr | ok | E -> E plus T | T ; T -> T star F | F ; F -> l E r | id
lalr_not_slr | ok | S -> L eq R | R ; L -> star R | id ; R -> L
lr1_not_lalr | conflict | S -> a A d | b B d | a B e | b A e ; A -> c ; B -> c
lr2 | conflict | S -> A a b | B a c ; A -> x ; B -> x
ambig_expr | conflict | E -> E plus E | n
dangling_else | conflict | S -> i S | i S e S | o
eps_mid | ok | S -> a B c ; B -> | b
eps_mid2 | ok | S -> A B C ; A -> a | ; B -> b | ; C -> c
nullable_chain | ok | S -> A B ; A -> C ; B -> D ; C -> | c ; D -> | d
nullable_prefix_lookahead | ok | S -> A b | c ; A -> | a A
left_rec_list | ok | L -> L x | x
right_rec_list | ok | L -> x L | x
left_right_mix | ok | S -> S a | b S2 ; S2 -> c S2 | c
opt_list_sep | ok | L -> | I ; I -> e | I comma e
unreachable_nt | ok | S -> a ; U -> b U | c
unproductive_nt | ok | S -> a | U b ; U -> c U
unproductive_first | ok | S -> U | a ; U -> U b
only_eps | ok | S ->
eps_chain | ok | S -> A ; A -> B ; B ->
one_token | ok | S -> a
two_tokens | ok | S -> a b
zero_terminals | ok | S -> A A ; A ->
rr_conflict | conflict | S -> A | B ; A -> a ; B -> a
sr_conflict_eps | conflict | S -> A a | a ; A ->
cyclic | conflict | S -> S | a
cyclic2 | conflict | S -> A | a ; A -> S
accept_reduce | conflict | S -> S
lalr_lookahead_prop | ok | S -> A a | b A c | d c | b d a ; A -> d
lalr_rr_from_merge | conflict | S -> a A c | a B d | b A d | b B c ; A -> z ; B -> z
nullable_la_inherit | ok | S -> A B c | A d ; A -> a ; B ->
nullable_la_inherit2 | ok | S -> a X Y Z b ; X -> | x ; Y -> | y ; Z -> | z
deep_unit_chain | ok | S -> A ; A -> B ; B -> C ; C -> D ; D -> d | l S r
json_like | ok | V -> O | R ; O -> lc M rc ; M -> | P ; P -> s col V | P comma s col V ; R -> lb rb | s | n
stmt_list | ok | P -> L ; L -> | L S semi ; S -> id eq E | k E ; E -> id | n | E plus id
pal_even | conflict | S -> a S a | b S b |
anbn | ok | S -> a S b |
anbn_cn | ok | S -> X C ; X -> a X b | ; C -> C c |
two_starts_share | ok | S -> A x | B y ; A -> a | A a2 ; B -> b | B a2
prec_climb | ok | E -> T Ep ; Ep -> | plus T Ep ; T -> F Tp ; Tp -> | star F Tp ; F -> n | l E r
if_then_matched | ok | S -> M | U ; M -> i M e M | o ; U -> i S | i M e U
type_expr | ok | T -> u | P | P lt A gt ; P -> id | P cc id ; A -> T | A comma T
nested_opt | ok | S -> O O2 z ; O -> | a ; O2 -> | a2
same_rhs_diff_lhs_ok | ok | S -> x A | y B ; A -> c ; B -> c
hidden_left_rec | conflict | S -> A S b | c ; A ->
eps_two_ways | conflict | S -> A B ; A -> | a ; B -> | a
long_rhs | ok | S -> a b c d e f
first_follow_clash | conflict | S -> A a | b ; A -> | a
rev_lookahead | ok | S -> a S2 | b ; S2 -> S c
self_embed_mid | ok | S -> a S b S | c
wide_alt | ok | S -> a | b | c | d | e | f
unreach_conflict | ok | S -> a ; U -> U U | b
nested_cores_let_run | ok | S -> let R | run C ; R -> C | I ; C -> id lp ; I -> id ls
nested_cores_get_invoke | ok | S -> get N semi | invoke A semi ; N -> id ; A -> id | id dot id
nested_cores_swap | ok | S -> a X | b Y ; X -> P | Q ; Y -> P ; P -> i l ; Q -> i m
prefix_names | ok | E -> n g n | n gt n | n gte n | gtee
prefix_names_rev | ok | E -> n zzz n | n zz n | n z n
selfloop_nt_parens | ok | E -> | P E Q ; P -> l ; Q -> r
selfloop_atom_g | ok | A -> open B ; B -> A g | atom
selfloop_open_shut | ok | X -> open X shut | open atom
selfloop_nt_list | ok | L -> | I L ; I -> a | b c
never_mid | ok | S -> a N b | c ; N -> !
never_after_nt | ok | S -> I N b | c ; I -> a ; N -> !
never_after_opt | conflict | S -> O N x | x y | q M ; O -> | z ; N -> ! ; M -> M M | m
never_only | ok | S -> N ; N -> !
never_tail | ok | S -> a | b N ; N -> !
never_conflict_elsewhere | conflict | S -> I N | M ; I -> a ; N -> ! ; M -> M M | m
eps_chain2_mid | ok | S -> k M id | id ; M -> p | D ; D -> N ; N ->
eps_chain2_block | ok | B -> l Ss Lv r ; Ss -> | Ss s ; Lv -> C ; C -> H ; H ->
eps_chain2_tail | ok | S -> n T ; T -> A eq num ; A -> Na | col id ; Na -> No ; No ->
eps_chain3_mid | ok | S -> a X b ; X -> Y ; Y -> Z ; Z -> W ; W ->
eps_chain2_two | ok | S -> A X Y c ; A -> a ; X -> X1 ; X1 -> X2 ; X2 -> ; Y -> Y1 | y ; Y1 -> Y2 ; Y2 ->
eps_chain2_conflict | conflict | S -> A X a | A a b ; A -> a ; X -> X1 ; X1 -> X2 ; X2 ->
eps_chain2_after_nt | ok | S -> L O semi ; L -> id | L comma id ; O -> P ; P -> Q ; Q ->
eps_chain2_start | ok | S -> O a ; O -> P ; P -> Q ; Q ->
eps_chain2_alt | ok | S -> a O b | a c ; O -> P | d ; P -> Q ; Q -> R ; R ->
"""


def parse_dsl(line):
    name, exp, prods = [x.strip() for x in line.split('|', 2)]
    nts = []
    rules = {}
    for part in prods.split(';'):
        lhs, rhs = part.split('->')
        lhs = lhs.strip()
        if lhs not in rules:
            rules[lhs] = []; nts.append(lhs)
        if rhs.strip() == '!':
            continue                  # a nonterminal without any production (enum with no variants)
        for alt in rhs.split('|'):
            rules[lhs].append(alt.split())
    return name, exp, nts, rules


def tname(t):
    return 'T' + t


def build(name, nts, rules, style=None, rng=None):
    """style: dict of knobs; rng for random knob choices."""
    rng = rng or random.Random(0)
    style = style or {}
    terms = []
    for lhs in nts:
        for alt in rules[lhs]:
            for s in alt:
                if s not in rules and s not in terms:
                    terms.append(s)
    for t in style.get('extra_terminals', []):
        if t not in terms:
            terms.append(t)

    def sym(s):
        return Sym('N', s) if s in rules else Sym('T', tname(s))

    def fieldset(alt):
        if not alt:
            return Fieldset('empty', [])
        kind = style.get('fieldset') or rng.choice(['named', 'tuple'])
        fs = []
        for i, s in enumerate(alt):
            skip = style.get('skip')
            if skip == 'all':
                used = False
            elif skip == 'none' or skip is None and not style.get('random_skip'):
                used = True
            else:
                used = rng.random() < 0.6
            fs.append(Field('f%d' % i if (kind == 'named' and used) else None, used, sym(s)))
        return Fieldset(kind, fs)
    out = []
    for lhs in nts:
        alts = rules[lhs]
        as_struct = len(alts) == 1 and (style.get('single') or rng.choice(['struct', 'enum'])) == 'struct'
        if as_struct:
            out.append(Nonterminal('struct', lhs, [], fieldset=fieldset(alts[0])))
        else:
            out.append(Nonterminal('enum', lhs, [], variants=[Variant('V%d' % i, fieldset(a)) for i, a in enumerate(alts)]))
    payload = style.get('payload', '()')
    g = Grammar(nts[0], 'Tok', [(tname(t), payload if isinstance(payload, str) else payload(i, t)) for i, t in enumerate(terms)], out,
                [], name)
    return g


def curated(rng=None, style=None):
    out = []
    for line in CURATED.strip().split('\n'):
        line = line.strip()
        if not line or line.startswith('#'):
            continue
        name, exp, nts, rules = parse_dsl(line)
        out.append((name, exp, build(name, nts, rules, style, rng)))
    return out


def repo_examples(repo):
    out = []
    for f in sorted(glob.glob(os.path.join(repo, 'kiki/src/examples/*.kiki'))) + [os.path.join(repo, 'kiki/src/parser.kiki')]:
        out.append((os.path.basename(f)[:-5], f))
    return out


def tiny_exhaustive(max_nt=2, max_t=2, max_prods=3, max_rhs=2):
    """All grammars with <= max_nt nonterminals (A,B), <= max_t terminals (a,b), exactly
    1..max_prods productions with rhs length <= max_rhs, start = A, every declared
    nonterminal has >= 1 production, no duplicate productions; up to nothing (no symmetry
    reduction beyond fixing the start)."""
    ntn = ['A', 'B'][:max_nt]
    tn = ['a', 'b'][:max_t]
    out = []
    seen = set()
    for nnt in range(1, max_nt + 1):
        syms = ntn[:nnt] + tn
        rhss = [()]
        for k in range(1, max_rhs + 1):
            rhss += list(itertools.product(syms, repeat=k))
        prods = [(l, r) for l in ntn[:nnt] for r in rhss]
        for k in range(1, max_prods + 1):
            for combo in itertools.combinations(prods, k):
                lhss = {l for l, _ in combo}
                if lhss != set(ntn[:nnt]):
                    continue
                key = combo
                if key in seen:
                    continue
                seen.add(key)
                rules = {}
                for l, r in combo:
                    rules.setdefault(l, []).append(list(r))
                out.append(('tiny_%d' % len(out), None, ntn[:nnt], rules))
    return out


def eps_chain_family():
    """Structured family: a nonterminal that is nullable only through a chain of unit rules ending in an
    epsilon rule, declared top-down or bottom-up, placed after / before other symbols.  Separates FIRST /
    nullable fixpoints that stop after a pass changing nullability only."""
    out = []
    pres = [[], ['a'], ['A'], ['a', 'A']]
    posts = [['b'], ['B', 'b'], [], ['B']]
    for L in (2, 3):
        for pi, pre in enumerate(pres):
            for qi, post in enumerate(posts):
                for order in ('top', 'bottom'):
                    for alt in (False, True):
                        chain = ['E%d' % i for i in range(L + 1)]
                        rules = {}
                        nts = ['S']
                        rules['S'] = [pre + [chain[0]] + post] + ([['c']] if not (pre or post) else [pre + ['c']] if pre else [['c']])
                        if 'A' in pre:
                            nts.append('A'); rules['A'] = [['x']]
                        if 'B' in post:
                            nts.append('B'); rules['B'] = [['y'], []] if qi == 3 else [['y']]
                        cr = {}
                        for i in range(L):
                            cr[chain[i]] = [[chain[i + 1]]] + ([['z']] if (alt and i == 0) else [])
                        cr[chain[L]] = [[]]
                        names = chain if order == 'top' else list(reversed(chain))
                        for n in names:
                            nts.append(n); rules[n] = cr[n]
                        out.append(('epsfam_L%d_p%d_q%d_%s_%s' % (L, pi, qi, order, 'alt' if alt else 'plain'), None, nts, rules))
    return out


def random_grammar(rng, idx, max_nt=5, max_rules=10, max_t=4, max_rhs=4):
    nnt = rng.randint(1, max_nt)
    nt = ['N%d' % i for i in range(nnt)]
    t = ['t%d' % i for i in range(rng.randint(1, max_t))]
    rules = {n: [] for n in nt}
    nrules = rng.randint(nnt, max_rules)
    for i in range(nrules):
        lhs = nt[i] if i < nnt else rng.choice(nt)
        ln = rng.choice([0, 1, 1, 2, 2, 3, max_rhs])
        rhs = [rng.choice(nt) if rng.random() < 0.4 else rng.choice(t) for _ in range(ln)]
        if rhs not in rules[lhs]:
            rules[lhs].append(rhs)
    if rng.random() < 0.35:
        L = rng.randint(2, 3)
        chain = ['Z%d' % i for i in range(L + 1)]
        host = rng.choice(nt)
        base = list(rng.choice(rules[host])) if rules[host] else []
        pos = rng.randint(0, len(base))
        new = base[:pos] + [chain[0]] + base[pos:]
        if new not in rules[host]:
            rules[host].append(new)
        for i in range(L):
            rules[chain[i]] = [[chain[i + 1]]]
        rules[chain[L]] = [[]]
        nt = nt + (chain if rng.random() < 0.7 else list(reversed(chain)))
    return ('rand_%d' % idx, None, nt, rules)
