"""Runs sets of Kani harnesses in parallel, one target-dir slot per worker, and parses verdicts.

A harness spec is a dict:
  name      exact harness name
  expect    'pass' (default) | 'fail' (vacuity twin: the final false assertion must FAIL)
  timeout   seconds
  crate     directory of the crate to run `cargo kani` in
  features  cargo features (for in-crate harnesses of /repo/kiki)
  extra     extra cargo-kani args
Verdicts: 'pass' | 'violation' | 'inconclusive', with details.
"""
from __future__ import annotations
import os
import re
import shutil
import signal
import subprocess
import threading
import time
from concurrent.futures import ThreadPoolExecutor

import common
from common import log

_slot_lock = threading.Lock()


def _slots_root(tag):
    return os.path.join(common.BUILD, 'kani_' + tag)


def prepare_slots(tag, crate, nslots, features=None, extra=None):
    """Compile once in slot 0 (codegen only), then clone the target dir for the other slots."""
    root = _slots_root(tag)
    os.makedirs(root, exist_ok=True)
    lock = os.path.join(common.REPO, 'Cargo.lock')
    if os.path.exists(lock) and os.path.abspath(crate) != os.path.abspath(os.path.join(common.REPO, 'kiki')):
        shutil.copy(lock, os.path.join(crate, 'Cargo.lock'))
    s0 = os.path.join(root, 's0')
    cmd = ['cargo', 'kani', '--only-codegen', '--target-dir', s0]
    if features:
        cmd += ['--features', features]
    cmd += (extra or [])
    t0 = time.time()
    rc, out = common.sh(cmd, cwd=crate, timeout=1800)
    if rc != 0:
        raise common.Inconclusive('cargo kani --only-codegen failed in %s:\n%s' % (crate, out[-6000:]))
    log('[kani] codegen %s: %.0fs' % (tag, time.time() - t0))
    for i in range(1, nslots):
        si = os.path.join(root, 's%d' % i)
        shutil.rmtree(si, ignore_errors=True)
        shutil.copytree(s0, si, symlinks=True)
    return [os.path.join(root, 's%d' % i) for i in range(nslots)]


def parse_kani_output(out):
    r = {}
    m = re.search(r'VERIFICATION:- (SUCCESSFUL|FAILED)', out)
    r['status'] = m.group(1) if m else None
    m = re.search(r'\*\* (\d+) of (\d+) failed(?: \((\d+) unreachable\))?', out)
    if m:
        r['failed'], r['checks'] = int(m.group(1)), int(m.group(2))
    m = re.search(r'\*\* (\d+) of (\d+) cover properties satisfied', out)
    if m:
        r['covers_sat'], r['covers'] = int(m.group(1)), int(m.group(2))
    m = re.search(r'Verification Time: ([0-9.]+)s', out)
    if m:
        r['verification_time'] = float(m.group(1))
    r['failed_checks'] = re.findall(r'Failed Checks: (.*)', out)
    # detailed failing check descriptions
    r['failures'] = []
    for m in re.finditer(r'Check \d+: (\S+)\n\s+- Status: FAILURE\n\s+- Description: "(.*?)"\n\s+- Location: (.*)', out):
        r['failures'].append({'check': m.group(1), 'description': m.group(2), 'location': m.group(3)})
    r['unwind_failure'] = any('unwinding assertion' in f['description'] for f in r['failures'])
    r['bound_exceeded'] = any('VERIF-BOUND' in f['description'] for f in r['failures'])
    r['unsupported'] = any('not currently supported by Kani' in f['description'] for f in r['failures'])
    # one unit test per failing assertion AND per satisfied cover: keep them all, failing-assertion ones first
    blocks = re.findall(r'Concrete playback unit test for `.*?`:\n```\n(.*?)```', out, re.S)
    if blocks:
        r['playback'] = blocks[0]
        r['playbacks'] = blocks
    return r


def run_harness(spec, target_dir):
    cmd = ['cargo', 'kani', '--target-dir', target_dir, '--harness', spec['name'], '--exact']
    if spec.get('features'):
        cmd += ['--features', spec['features']]
    cmd += spec.get('extra', [])
    if spec.get('playback'):
        cmd += ['-Z', 'concrete-playback', '--concrete-playback=print']
    t0 = time.time()
    mem_kb = int(spec.get('mem_gb', 12) * 1024 * 1024)
    p = subprocess.Popen(['bash', '-c', 'ulimit -v %d; exec "$@"' % mem_kb, 'bash'] + cmd, cwd=spec['crate'], env=common.ENV,
                         stdout=subprocess.PIPE, stderr=subprocess.STDOUT, text=True, errors='replace',
                         start_new_session=True)
    try:
        out, _ = p.communicate(timeout=spec.get('timeout', 600))
        timed_out = False
    except subprocess.TimeoutExpired:
        try:
            os.killpg(p.pid, signal.SIGKILL)
        except ProcessLookupError:
            pass
        out, _ = p.communicate()
        timed_out = True
    wall = time.time() - t0
    if spec.get('log'):
        try:
            with open(spec['log'], 'w', encoding='utf8') as f:
                f.write(out)
        except OSError:
            pass
    r = parse_kani_output(out)
    r['name'] = spec['name']
    r['wall'] = round(wall, 1)
    r['timed_out'] = timed_out
    r['expect'] = spec.get('expect', 'pass')
    r['log_tail'] = out[-1500:] if (r['status'] is None) else ''
    # verdict
    if timed_out or r['status'] is None:
        r['verdict'] = 'inconclusive'
        r['why'] = 'timeout after %ds' % spec.get('timeout', 600) if timed_out else 'no verdict (solver error / out of memory / build error)'
    elif r['expect'] == 'fail':
        only_expected = r['failures'] and all('EXPECTED-FAIL' in f['description'] for f in r['failures'])
        if r['status'] == 'FAILED' and only_expected:
            r['verdict'] = 'pass'
        else:
            r['verdict'] = 'inconclusive'
            r['why'] = 'vacuity twin did not fail as expected (status %s, failures %s)' % (r['status'], r['failed_checks'])
    elif r['status'] == 'SUCCESSFUL':
        if r.get('covers', 0) and r.get('covers_sat', 0) < r.get('covers', 0):
            r['verdict'] = 'inconclusive'
            r['why'] = 'vacuity: only %d of %d cover properties satisfied' % (r.get('covers_sat', 0), r['covers'])
        else:
            r['verdict'] = 'pass'
    else:
        if r['unwind_failure'] or r['bound_exceeded']:
            r['verdict'] = 'inconclusive'
            r['why'] = 'bound exceeded (unwinding assertion / harness capacity): ' + '; '.join(f['description'] for f in r['failures'][:3])
        elif r['unsupported'] and all('not currently supported' in f['description'] for f in r['failures']):
            r['verdict'] = 'inconclusive'
            r['why'] = 'construct unsupported by Kani reached'
        else:
            r['verdict'] = 'violation'
            r['why'] = '; '.join('%s @ %s' % (f['description'], f['location']) for f in r['failures'][:4]) or str(r['failed_checks'])
    return r


def run_many(specs, tag, crate, features=None, jobs=None, codegen_extra=None):
    jobs = min(jobs or common.NCPU, len(specs)) or 1
    slots = prepare_slots(tag, crate, jobs, features, codegen_extra)
    free = list(slots)
    results = [None] * len(specs)

    def work(i):
        with _slot_lock:
            slot = free.pop()
        try:
            spec = dict(specs[i])
            spec.setdefault('crate', crate)
            if features:
                spec.setdefault('features', features)
            r = run_harness(spec, slot)
            if r['verdict'] == 'violation' and not spec.get('playback'):
                # second run with concrete playback to obtain the solver's concrete assignment
                spec['playback'] = True
                r2 = run_harness(spec, slot)
                if 'playback' in r2:
                    r['playback'] = r2['playback']
                    r['playbacks'] = r2.get('playbacks')
            log('[kani] %-44s %-12s %6.1fs %s' % (r['name'], r['verdict'], r['wall'], r.get('why', '')[:160]))
            results[i] = r
        finally:
            with _slot_lock:
                free.append(slot)
    # longest first
    order = sorted(range(len(specs)), key=lambda i: -specs[i].get('cost', 1))
    with ThreadPoolExecutor(max_workers=jobs) as ex:
        list(ex.map(work, order))
    return results
