"""Engine E1 runner: Kani over the real emitted module (C01, C02, C03)."""
from __future__ import annotations
import glob
import json
import os
import re
import shutil
import subprocess
import time
from concurrent.futures import ThreadPoolExecutor

import common
from common import Result, log
import e1gen
import kani_runner
from grammar import read_kiki
from lrref import CFG, canonical_lr1, lalr_from_lr1, tables

E1_CORPUS = os.path.join(common.VERIF, 'corpus', 'e1')
CARGO_TOML = ('[package]\nname = "e1case"\nversion = "0.1.0"\nedition = "2021"\n\n[workspace]\n\n'
              '[lints.rust]\nunexpected_cfgs = { level = "allow" }\n')

TAG_RE = re.compile(r'\b(C0[123])\b')


def e1_cases(names, lengths):
    """[(grammar name, path, n)]"""
    out = []
    for nm in names:
        p = os.path.join(E1_CORPUS, nm + '.kiki')
        for n in lengths:
            out.append((nm, p, n))
    return out


class Prepared:
    pass


def prepare_grammar(name, path, area='e1'):
    """Runs the real generator, the reference, and builds the native replay binary."""
    P = Prepared()
    P.name, P.path = name, path
    P.g = read_kiki(open(path, encoding='utf8').read(), name)
    P.gen = common.kgen_one('gen', path)
    if P.gen['status'] != 'ok':
        P.error = 'generate did not return Ok for E1 corpus grammar %s: %s' % (name, P.gen.get('err', P.gen))
        return P
    P.error = None
    cfg = CFG(P.g)
    lr1 = canonical_lr1(cfg)
    la = lalr_from_lr1(lr1)
    P.ref = (lr1, tables(lr1), la, tables(la))
    P.dir = os.path.join(common.WORK, area, name)
    shutil.rmtree(P.dir, ignore_errors=True)
    os.makedirs(P.dir, exist_ok=True)
    return P


def build_native(P, lengths):
    """Unshimmed emitted module + the same walker/oracle, compiled by plain rustc (dev and release)."""
    txt, meta = e1gen.build_source(P.g, P.gen['rust'], lengths, 'native', ref=P.ref)
    src = os.path.join(P.dir, 'native.rs')
    open(src, 'w', encoding='utf8').write(txt)
    P.native = {}
    for prof, flags in (('dev', ['-C', 'debug-assertions=on', '-C', 'overflow-checks=on']), ('release', ['-O'])):
        exe = os.path.join(P.dir, 'native_' + prof)
        rc, out = common.sh(['rustc', '--edition', '2021', '--cap-lints', 'allow'] + flags + [src, '-o', exe], timeout=600)
        if rc != 0:
            P.native_error = out[-3000:]
            return False
        P.native[prof] = exe
    P.native_error = None
    return True


def build_native_raw(P):
    txt = e1gen.build_raw_native(P.g, P.gen['rust'])
    src = os.path.join(P.dir, 'native_raw.rs')
    open(src, 'w', encoding='utf8').write(txt)
    exe = os.path.join(P.dir, 'native_raw')
    rc, out = common.sh(['rustc', '--edition', '2021', '--cap-lints', 'allow', '-O', src, '-o', exe], timeout=600)
    if rc != 0:
        P.native_error = out[-3000:]
        return False
    P.native = {'release': exe}
    P.native_error = None
    return True


def native_run(P, n, kinds, vals, prof='dev', timeout=10):
    try:
        p = subprocess.run([P.native[prof], str(n), ','.join(map(str, kinds)), ','.join(map(str, vals))],
                           stdout=subprocess.PIPE, stderr=subprocess.PIPE, text=True, timeout=timeout)
    except subprocess.TimeoutExpired:
        return {'hang': True}
    m = re.search(r'OUTCOME (\d)', p.stdout)
    return {'hang': False, 'rc': p.returncode, 'outcome': int(m.group(1)) if m else None,
            'panic': (re.findall(r"panicked at .*?:\n(.*)", p.stderr) or [''])[0] if p.returncode != 0 else ''}


def make_case(P, n):
    d = os.path.join(P.dir, 'n%d' % n)
    os.makedirs(os.path.join(d, 'src'), exist_ok=True)
    txt, meta = e1gen.build_source(P.g, P.gen['rust'], [n], 'kani', ref=P.ref)
    open(os.path.join(d, 'src', 'lib.rs'), 'w', encoding='utf8').write(txt)
    open(os.path.join(d, 'Cargo.toml'), 'w').write(CARGO_TOML)
    return d, meta


def parse_playback(text, n):
    """Concrete values printed by Kani's concrete playback, in kani::any() call order:
    kinds (n bytes) then vals (n bytes)."""
    vecs = re.findall(r'vec!\[([0-9,\s]*)\]', text or '')
    flat = []
    for v in vecs:
        flat += [int(x) for x in v.replace(' ', '').split(',') if x != '']
    if len(flat) < 2 * n:
        return None
    return flat[:n], flat[n:2 * n]


def run_cases(prop, tier, names, lengths, timeout):
    """Returns (results, prepared) ; results: list of dicts per (grammar, n).
    `lengths` is a list (same for all grammars) or a dict grammar -> list."""
    prepared = {}
    if not isinstance(lengths, dict):
        lengths = {nm: list(lengths) for nm in names}
    all_lengths = lengths
    for nm in names:
        lengths = all_lengths[nm]
        P = prepare_grammar(nm, os.path.join(E1_CORPUS, nm + '.kiki'))
        prepared[nm] = P
        if P.error is None:
            try:
                P.native_ok = build_native(P, lengths)
            except e1gen.OracleError as ex:
                P.error = 'oracle: %s' % ex
    jobs = []
    for nm in names:
        P = prepared[nm]
        if P.error:
            continue
        for n in all_lengths[nm]:
            jobs.append((nm, n))

    def work(job):
        nm, n = job
        P = prepared[nm]
        try:
            d, meta = make_case(P, n)
        except e1gen.OracleError as ex:
            return {'grammar': nm, 'n': n, 'verdict': 'inconclusive', 'why': 'oracle: %s' % ex}
        spec = {'name': 'e1_parse_n%d' % n, 'crate': d, 'timeout': timeout, 'mem_gb': 24, 'log': os.path.join(d, 'kani.log')}
        r = kani_runner.run_harness(spec, os.path.join(d, 'target'))
        r.update({'grammar': nm, 'n': n, 'meta': meta['lengths'][n], 'dir': d})
        if r['verdict'] == 'violation':
            spec['playback'] = True
            r2 = kani_runner.run_harness(spec, os.path.join(d, 'target'))
            r['playback'] = r2.get('playback')
            r['playbacks'] = r2.get('playbacks') or []
        if n == min(all_lengths[nm]) and r['verdict'] == 'pass':
            tw = kani_runner.run_harness({'name': 'e1_twin_n%d_must_fail' % n, 'crate': d, 'timeout': timeout, 'expect': 'fail',
                                          'mem_gb': 24}, os.path.join(d, 'target'))
            r['twin'] = tw['verdict']
            if tw['verdict'] != 'pass':
                r['verdict'] = 'inconclusive'
                r['why'] = 'vacuity twin: ' + tw.get('why', '')
        log('[e1] %-22s n=%d %-12s %6.1fs %s' % (nm, n, r['verdict'], r['wall'], r.get('why', '')[:140]))
        shutil.rmtree(os.path.join(d, 'target'), ignore_errors=True)
        return r
    jobs.sort(key=lambda j: -j[1])
    with ThreadPoolExecutor(max_workers=min(common.NCPU, max(1, len(jobs)))) as ex:
        results = list(ex.map(work, jobs))
    return results, prepared


def validate_encoding(P, lengths, R, k=6):
    """Serval-style: push sample strings through the native (unshimmed) build of the same
    harness code; a native assertion failure here is a concrete witness, a build failure
    is an infrastructure problem."""
    import random
    rng = random.Random(common.seed() + 5)
    T = len(P.g.terminals)
    ran = 0
    for n in lengths:
        for _ in range(k):
            kinds = [rng.randrange(T) for _ in range(n)] if T else []
            if T == 0 and n > 0:
                continue
            vals = [rng.randrange(256) for _ in range(n)]
            for prof in ('dev', 'release'):
                o = native_run(P, n, kinds, vals, prof)
                ran += 1
                if o.get('hang') or o.get('rc') != 0:
                    return ran, (n, kinds, vals, prof, o)
    return ran, None


def attribute(prop, failures):
    """Which failing assertions belong to `prop`.  Untagged failures (panics in the emitted
    code, shim bounds) are everybody's."""
    own, other, untagged = [], [], []
    for f in failures:
        m = TAG_RE.search(f['description'])
        if not m:
            untagged.append(f)
        elif m.group(1) == prop:
            own.append(f)
        else:
            other.append(f)
    return own, other, untagged


def run_e1(prop, tier, names, lengths, R: Result, timeout):
    results, prepared = run_cases(prop, tier, names, lengths, timeout)
    stats = {'cases': 0, 'passed': 0, 'cbmc_checks': 0, 'solver_s': 0.0, 'covers': 0, 'strings_covered': 0, 'native_validation_runs': 0}
    samples = []
    for nm, P in prepared.items():
        if P.error:
            R.inconclusive.append('E1 %s: %s' % (nm, P.error))
            continue
        if not getattr(P, 'native_ok', False):
            # Does the emitted module compile on its own?  If it does, the generated client (walker with explicit,
            # exhaustive patterns and type ascriptions taken from the DECLARATIONS) is what fails to type-check:
            # the emitted types do not have the declared shape.
            alone = os.path.join(P.dir, 'module_alone.rs')
            open(alone, 'w', encoding='utf8').write('#![allow(dead_code)]\npub mod payload { pub struct P { pub tag: u8, pub val: u8 } }\npub mod g {\n'
                                                    + P.gen['rust'] + '\n}\n')
            rc, out = common.sh(['rustc', '--edition', '2021', '--cap-lints', 'allow', '--crate-type', 'lib', '--emit', 'metadata',
                                 '-o', os.path.join(P.dir, 'module_alone.rmeta'), alone], timeout=300)
            errs = [l for l in (P.native_error or '').split('\n') if l.startswith('error')][:4]
            if rc == 0 and prop == 'C02':
                R.violation('e1:%s:shape' % nm, '%s: the emitted module compiles, but a client that destructures every emitted type exactly as '
                            'declared (used fields present, `_` fields absent, Box<nonterminal> / payload types) does not type-check: %s'
                            % (nm, ' | '.join(errs)), {'grammar_file': P.path, 'shape': True, 'errors': errs})
            else:
                R.inconclusive.append('E1 %s: native replay build failed (%s): %s' % (nm, 'emitted types differ from the declared shape' if rc == 0
                                      else 'emitted module does not compile: suspect C05', (P.native_error or '')[-600:]))
            continue
        ran, bad = validate_encoding(P, lengths[nm] if isinstance(lengths, dict) else lengths, R)
        stats['native_validation_runs'] += ran
        if bad:
            n, kinds, vals, prof, o = bad
            # a native failure of the same checks: concrete witness; let the solver-side verdict report it,
            # but make sure it is not lost if Kani was inconclusive
            R.inconclusive.append('E1 %s: native %s run of kinds=%s vals=%s failed: %s' % (nm, prof, kinds, vals, o))
    for r in results:
        stats['cases'] += 1
        P = prepared[r['grammar']]
        key = '%s:n%d' % (r['grammar'], r['n'])
        if r['verdict'] == 'pass':
            stats['passed'] += 1
            stats['cbmc_checks'] += r.get('checks', 0)
            stats['solver_s'] += r.get('verification_time', 0)
            stats['covers'] += r.get('covers_sat', 0)
            stats['strings_covered'] += r['meta']['strings']
            if len(samples) < 10:
                samples.append({'grammar': r['grammar'], 'n': r['n'], 'kind_strings_quantified_over': r['meta']['strings'],
                                'oracle': {k: r['meta'][k] for k in ('accepted', 'err_token', 'err_eof')},
                                'unwind': r['meta']['unwind'], 'cbmc_checks': r.get('checks'), 'solver_s': r.get('verification_time'),
                                'covers': '%s/%s' % (r.get('covers_sat'), r.get('covers'))})
        elif r['verdict'] == 'violation':
            own, other, untagged = attribute(prop, r['failures'])
            # Kani prints one concrete test per failing assertion and per satisfied cover: try them all natively
            pb = None
            confirmed = None
            detail = ''
            for blk in (r.get('playbacks') or [r.get('playback')]):
                cand = parse_playback(blk, r['n'])
                if not cand:
                    continue
                outs = {prof: native_run(P, r['n'], cand[0], cand[1], prof) for prof in ('dev', 'release')}
                bad = any(o.get('hang') or o.get('rc') != 0 for o in outs.values())
                if pb is None or bad:
                    pb = cand
                    confirmed = bad
                    pb_outs = outs
                if bad:
                    break
            if pb:
                kinds, vals = pb
                outs = pb_outs
                detail = 'kinds=%s vals=%s native=%s' % (kinds, vals, {k: (v.get('panic') or v.get('outcome') or v) for k, v in outs.items()})
                # attribute untagged failures by the oracle's classification of the concrete input
                if untagged and not own:
                    o = e1gen.Oracle(P.g, r['n'], P.ref)
                    is_sentence = o.accept[e1gen.str_index(kinds, len(P.g.terminals))] == 1
                    if prop == 'C01' or (prop == 'C02' and is_sentence) or (prop == 'C03' and not is_sentence):
                        own = untagged
            relevant = own or (untagged if prop == 'C01' else [])
            desc = '%s n=%d: %s %s' % (r['grammar'], r['n'], '; '.join(f['description'] for f in (relevant or r['failures'])[:3]), detail)
            if not relevant:
                R.inconclusive.append('E1 %s: only other properties\' assertions failed (%s)' % (key, '; '.join(f['description'] for f in other[:3])))
            elif confirmed is False:
                R.inconclusive.append('E1 %s: counterexample does not reproduce natively (encoding suspect): %s' % (key, desc))
            elif confirmed is None:
                R.inconclusive.append('E1 %s: no concrete playback obtained: %s' % (key, desc))
            else:
                R.violation('e1:' + key, desc, {'grammar_file': P.path, 'n': r['n'], 'kinds': pb[0], 'vals': pb[1],
                                                'failures': r['failures'][:6]})
        else:
            R.inconclusive.append('E1 %s: %s' % (key, r.get('why')))
    return stats, samples


def replay_e1(obj):
    rp = obj['replay']
    nm = os.path.basename(rp['grammar_file'])[:-5]
    if rp.get('shape'):
        P = prepare_grammar(nm, rp['grammar_file'], 'e1replay')
        if P.error:
            print('generate failed: ' + P.error)
            return 1
        ok = build_native(P, [0])
        print('client type-checks' if ok else (P.native_error or '')[-1500:])
        return 0 if ok else 1
    if rp.get('step'):
        P = prepare_grammar(nm, rp['grammar_file'], 'e1replay')
        if P.error:
            print('generate failed: ' + P.error)
            return 1
        ntxt, _ = e1gen.build_step_source(P.g, P.gen['rust'], 'native')
        nsrc = os.path.join(P.dir, 'native_step.rs')
        open(nsrc, 'w', encoding='utf8').write(ntxt)
        rc, out = common.sh(['rustc', '--edition', '2021', '--cap-lints', 'allow', '-O', nsrc, '-o', os.path.join(P.dir, 'native_step')], timeout=600)
        if rc != 0:
            print(out[-2000:])
            return 2
        rc, out = common.sh([os.path.join(P.dir, 'native_step'), str(rp['rule']), ','.join(map(str, rp['vals'] or []))], timeout=20)
        print(out[-600:])
        return 1 if (rc != 0 or 'STEP OK' not in out) else 0
    P = prepare_grammar(nm, rp['grammar_file'])
    if P.error:
        print('generate failed: ' + P.error)
        return 1
    build_native(P, [rp['n']])
    bad = False
    for prof in ('dev', 'release'):
        o = native_run(P, rp['n'], rp['kinds'], rp['vals'], prof)
        print(prof, o)
        bad |= bool(o.get('hang') or o.get('rc') != 0)
    return 1 if bad else 0


# ----------------------------------------------------------------------------
# reduce-step harnesses (one reduction from a stack of minimal trees), any rule length
# ----------------------------------------------------------------------------

def run_reduce_steps(prop, tier, names, R: Result, timeout=900):
    stats = {'grammars': 0, 'rules': 0, 'passed': 0, 'cbmc_checks': 0, 'solver_s': 0.0, 'max_rhs': 0}
    samples = []
    jobs = []
    for nm in names:
        if isinstance(nm, tuple):
            nm, path = nm
        else:
            path = os.path.join(E1_CORPUS, nm + '.kiki')
        P = prepare_grammar(nm, path, 'e1step')
        if P.error:
            if P.gen.get('status') == 'err' and P.gen['err']['variant'] == 'TableConflict':
                continue        # generate rejected the grammar: nothing emitted
            R.inconclusive.append('E1-step %s: %s' % (nm, P.error))
            continue
        try:
            ktxt, meta = e1gen.build_step_source(P.g, P.gen['rust'], 'kani')
            ntxt, _ = e1gen.build_step_source(P.g, P.gen['rust'], 'native')
        except Exception as ex:
            R.inconclusive.append('E1-step %s: cannot generate harness (%s)' % (nm, ex))
            continue
        os.makedirs(os.path.join(P.dir, 'src'), exist_ok=True)
        open(os.path.join(P.dir, 'src', 'lib.rs'), 'w', encoding='utf8').write(ktxt)
        open(os.path.join(P.dir, 'Cargo.toml'), 'w').write(CARGO_TOML)
        nsrc = os.path.join(P.dir, 'native_step.rs')
        open(nsrc, 'w', encoding='utf8').write(ntxt)
        rc, out = common.sh(['rustc', '--edition', '2021', '--cap-lints', 'allow', '-O', nsrc, '-o', os.path.join(P.dir, 'native_step')], timeout=600)
        P.native_step = os.path.join(P.dir, 'native_step') if rc == 0 else None
        if rc != 0:
            alone = os.path.join(P.dir, 'module_alone.rs')
            open(alone, 'w', encoding='utf8').write('#![allow(dead_code)]\npub mod payload { pub struct P { pub tag: u8, pub val: u8 } }\npub mod g {\n'
                                                    + P.gen['rust'] + '\n}\n')
            rc2, out2 = common.sh(['rustc', '--edition', '2021', '--cap-lints', 'allow', '--crate-type', 'lib', '--emit', 'metadata',
                                   '-o', os.path.join(P.dir, 'module_alone.rmeta'), alone], timeout=300)
            errs = [l for l in out.split('\n') if l.startswith('error')][:4]
            if rc2 == 0 and prop == 'C02':
                R.violation('e1step:%s:shape' % nm, '%s: the emitted module compiles, but constructing / destructuring its types exactly as declared '
                            'does not type-check: %s' % (nm, ' | '.join(errs)), {'grammar_file': P.path, 'shape': True, 'errors': errs})
            else:
                R.inconclusive.append('E1-step %s: native build failed: %s' % (nm, out[-600:]))
            continue
        stats['grammars'] += 1
        stats['max_rhs'] = max([stats['max_rhs']] + [len(r.rhs) for r in P.g.rules()])
        for m in meta:
            jobs.append((P, m))

    def work(job):
        P, m = job
        # each rule gets its own copy of the crate dir so that cargo locks do not serialise
        d = os.path.join(P.dir, 'r%d' % m['rule'])
        os.makedirs(os.path.join(d, 'src'), exist_ok=True)
        shutil.copy(os.path.join(P.dir, 'src', 'lib.rs'), os.path.join(d, 'src', 'lib.rs'))
        shutil.copy(os.path.join(P.dir, 'Cargo.toml'), os.path.join(d, 'Cargo.toml'))
        spec = {'name': 'e1_reduce_step_r%d' % m['rule'], 'crate': d, 'timeout': timeout, 'mem_gb': 16}
        r = kani_runner.run_harness(spec, os.path.join(d, 'target'))
        if r['verdict'] == 'violation':
            spec['playback'] = True
            r2 = kani_runner.run_harness(spec, os.path.join(d, 'target'))
            r['playback'] = r2.get('playback')
            r['playbacks'] = r2.get('playbacks') or []
        shutil.rmtree(os.path.join(d, 'target'), ignore_errors=True)
        r['grammar'], r['rule'], r['m'] = P.name, m['rule'], m
        log('[e1-step] %-20s r%-2d %-12s %5.1fs %s' % (P.name, m['rule'], r['verdict'], r['wall'], r.get('why', '')[:120]))
        return r, P
    with ThreadPoolExecutor(max_workers=min(common.NCPU, max(1, len(jobs)))) as ex:
        results = list(ex.map(work, jobs))
    for r, P in results:
        stats['rules'] += 1
        key = '%s:r%d' % (r['grammar'], r['rule'])
        if r['verdict'] == 'pass':
            stats['passed'] += 1
            stats['cbmc_checks'] += r.get('checks', 0)
            stats['solver_s'] += r.get('verification_time', 0.0)
            if len(samples) < 4:
                samples.append({'grammar': r['grammar'], 'rule': P.g.bnf()[r['rule']], 'payload_bytes_symbolic': r['m']['payload_leaves'],
                                'cbmc_checks': r.get('checks'), 'solver_s': r.get('verification_time')})
        elif r['verdict'] == 'violation':
            own, other, untagged = attribute(prop, r['failures'])
            rel = own or untagged
            vals = None
            confirmed = None
            nat = ''
            for blk in (r.get('playbacks') or [r.get('playback')]):
                if not blk:
                    continue
                vecs = re.findall(r'vec!\[([0-9,\s]*)\]', blk)
                cand = [int(x) for v in vecs for x in v.replace(' ', '').split(',') if x != '']
                rc, out = common.sh([P.native_step, str(r['rule']), ','.join(map(str, cand))], timeout=20)
                bad = rc != 0 or 'STEP OK' not in out
                if vals is None or bad:
                    vals, confirmed, nat = cand, bad, out[-200:].strip()
                if bad:
                    break
            desc = 'reduce step %s (%s): %s; vals=%s native: %s' % (key, P.g.bnf()[r['rule']], '; '.join(f['description'] for f in (rel or r['failures'])[:3]), vals, nat)
            if not rel:
                R.inconclusive.append('E1-step %s: only other properties\' assertions failed (%s)' % (key, '; '.join(f['description'] for f in other[:2])))
            elif confirmed:
                R.violation('e1step:' + key, desc, {'grammar_file': P.path, 'rule': r['rule'], 'vals': vals, 'step': True})
            else:
                R.inconclusive.append('E1-step %s: counterexample not reproduced natively: %s' % (key, desc))
        else:
            R.inconclusive.append('E1-step %s: %s' % (key, r.get('why')))
    return stats, samples
