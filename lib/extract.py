"""Extraction of the parse tables and reduce descriptors from an emitted module.

Works on both emitted layouts: today's template (`static` tables, one
`reduce_rN` function per rule) and the older one of kiki/src/parser.rs (`const`
tables, reductions inlined in `pop_and_reduce`).  Regenerated from the current
text on every run; anything unexpected raises ExtractError (-> inconclusive).
"""
from __future__ import annotations
import re


class ExtractError(Exception):
    pass


def _need(m, what):
    if not m:
        raise ExtractError('cannot find ' + what)
    return m


class Emitted:
    pass


def _enum_variants(src, name, numbered=True):
    m = _need(re.search(r'\nenum %s \{\n(.*?)\n\}' % re.escape(name), src, re.S), 'enum ' + name)
    out = []
    for l in m.group(1).split('\n'):
        l = l.strip()
        if not l:
            continue
        if numbered:
            mm = _need(re.fullmatch(r'(\w+) = (\d+),', l), 'numbered variant in %s: %r' % (name, l))
            if int(mm.group(2)) != len(out):
                raise ExtractError('discriminants of %s not consecutive' % name)
            out.append(mm.group(1))
        else:
            out.append(l)
    return out


def extract(src: str) -> Emitted:
    e = Emitted()
    m = _need(re.search(r'\nfn get_action\(top_state: (\w+), next_quasiterminal_kind: (\w+)\) -> (\w+) \{\n'
                        r'    (\w+)\[top_state as usize\]\[next_quasiterminal_kind as usize\]\n\}', src), 'get_action')
    e.state_enum, e.qkind_enum, e.action_enum, e.action_table = m.groups()
    m = _need(re.search(r'\nfn get_goto\(top_state: (\w+), new_node_kind: (\w+)\) -> Option<(\w+)> \{\n'
                        r'    (\w+)\[top_state as usize\]\[new_node_kind as usize\]\n\}', src), 'get_goto')
    if m.group(1) != e.state_enum or m.group(3) != e.state_enum:
        raise ExtractError('state enum mismatch')
    e.nkind_enum, e.goto_table = m.group(2), m.group(4)
    m = _need(re.search(r'\nfn pop_and_reduce\(states: &mut Vec<(\w+)>, nodes: &mut Vec<(\w+)>, rule_kind: (\w+)\) -> \((\w+), (\w+)\) \{\n',
                        src), 'pop_and_reduce')
    e.node_enum, e.rule_enum = m.group(2), m.group(3)
    m = _need(re.search(r'\npub fn parse<S>\(src: S\) -> Result<(\w+), Option<(\w+)>>\nwhere S: IntoIterator<Item = (\w+)> \{\n(.*?)\n\}\n',
                        src, re.S), 'parse')
    e.start_type, e.term_enum = m.group(1), m.group(2)
    e.parse_body = m.group(4)
    m = _need(re.search(r'let mut states = vec!\[%s::S(\d+)\];' % re.escape(e.state_enum), e.parse_body), 'start state')
    e.start_state = int(m.group(1))

    e.qkinds = _enum_variants(src, e.qkind_enum)
    e.nkinds = _enum_variants(src, e.nkind_enum)
    states = _enum_variants(src, e.state_enum)
    for i, s in enumerate(states):
        if s != 'S%d' % i:
            raise ExtractError('state variant naming')
    rules = _enum_variants(src, e.rule_enum) if re.search(r'\nenum %s \{\n\s*\w' % re.escape(e.rule_enum), src) else []
    e.nstates = len(states)
    e.nrules = len(rules)
    nq, nn, ns = len(e.qkinds), len(e.nkinds), e.nstates

    m = _need(re.search(r'\n(static|const) %s: \[\[%s; (\d+)\]; (\d+)\] = \[\n(.*?)\n\];' %
                        (re.escape(e.action_table), re.escape(e.action_enum)), src, re.S), 'action table')
    e.table_kw = m.group(1)
    if int(m.group(2)) != nq or int(m.group(3)) != ns:
        raise ExtractError('action table dims %s x %s, enums say %d x %d' % (m.group(3), m.group(2), ns, nq))
    body = m.group(4)
    cells = re.findall(r'%s::(Shift\(%s::S(\d+)\)|Reduce\(%s::R(\d+)\)|Accept|Err),' %
                       (re.escape(e.action_enum), re.escape(e.state_enum), re.escape(e.rule_enum)), body)
    stripped = re.sub(r'[\s\[\],]', '', re.sub(r'%s::(Shift\(%s::S\d+\)|Reduce\(%s::R\d+\)|Accept|Err)' %
                      (re.escape(e.action_enum), re.escape(e.state_enum), re.escape(e.rule_enum)), '', body))
    if stripped or len(cells) != nq * ns:
        raise ExtractError('action table cells: %d parsed, expected %d, residue %r' % (len(cells), nq * ns, stripped[:40]))
    rows = [r for r in re.findall(r'\[\n(.*?)\n    \],', body + '\n', re.S)]
    if len(rows) != ns:
        raise ExtractError('action rows %d != %d' % (len(rows), ns))
    e.action = []
    k = 0
    for s in range(ns):
        row = []
        for q in range(nq):
            c = cells[k]; k += 1
            if c[0].startswith('Shift'):
                j = int(c[1])
                if j >= ns:
                    raise ExtractError('shift target out of range')
                row.append(('s', j))
            elif c[0].startswith('Reduce'):
                r = int(c[2])
                row.append(('r', r))
            elif c[0] == 'Accept':
                row.append(('acc',))
            else:
                row.append(('err',))
        e.action.append(row)

    m = _need(re.search(r'\n(static|const) %s: \[\[Option<%s>; (\d+)\]; (\d+)\] = \[\n(.*?)\n\];' %
                        (re.escape(e.goto_table), re.escape(e.state_enum)), src, re.S), 'goto table')
    if int(m.group(2)) != nn or int(m.group(3)) != ns:
        raise ExtractError('goto table dims')
    body = m.group(4)
    cells = re.findall(r'(Some\(%s::S(\d+)\)|None),' % re.escape(e.state_enum), body)
    stripped = re.sub(r'[\s\[\],]', '', re.sub(r'(Some\(%s::S\d+\)|None)' % re.escape(e.state_enum), '', body))
    if stripped or len(cells) != nn * ns:
        raise ExtractError('goto table cells: %d parsed, expected %d' % (len(cells), nn * ns))
    e.goto = []
    k = 0
    for s in range(ns):
        row = []
        for a in range(nn):
            c = cells[k]; k += 1
            row.append(None if c[0] == 'None' else int(c[1]))
        e.goto.append(row)

    # terminal method names -> terminal index
    e.term_methods = {}
    for mm in re.finditer(r'fn (try_into_\w+)\(self\) -> Result<(.*?), Self> \{\n\s*match self \{\n\s*Self::(\w+)\(t\) => Ok\(t\),',
                          src):
        nm = mm.group(3)
        if nm not in e.qkinds[:-1]:
            raise ExtractError('try_into for unknown terminal ' + nm)
        e.term_methods[mm.group(1)] = e.qkinds.index(nm)

    # reduce descriptors
    pr = src[src.index('\nfn pop_and_reduce('):]
    end = pr.index('\n}\n')
    pr_body = pr[:end]
    if not pr_body.endswith('\n    }'):
        raise ExtractError('pop_and_reduce layout')
    pr_body = pr_body[:-len('\n    }')]
    arms = re.findall(r'%s::R(\d+) => (.*?)(?=\n        %s::R\d+ =>|\Z)' % (re.escape(e.rule_enum), re.escape(e.rule_enum)),
                      pr_body, re.S)
    if len(arms) != e.nrules:
        raise ExtractError('pop_and_reduce arms %d != rules %d' % (len(arms), e.nrules))
    e.reduces = []
    for i, (idx, arm) in enumerate(arms):
        if int(idx) != i:
            raise ExtractError('arm order')
        call = re.fullmatch(r'(\w+)\(states, nodes\),\s*', arm)
        if call:
            fm = _need(re.search(r'\nfn %s\((_?states): &mut Vec<%s>, (_?nodes): &mut Vec<%s>\) -> \(%s, %s\) \{\n(.*?)\n\}\n' %
                                 (re.escape(call.group(1)), re.escape(e.state_enum), re.escape(e.node_enum),
                                  re.escape(e.node_enum), re.escape(e.nkind_enum)), src, re.S), 'reduce fn ' + call.group(1))
            body = fm.group(3)
            e.layout = 'fns'
        else:
            body = arm
            e.layout = 'inline'
        e.reduces.append(_reduce_descriptor(e, body))
    return e


def _reduce_descriptor(e, body):
    pops = []
    pos = 0
    stmts = []
    for line in body.split('\n'):
        l = line.strip()
        if 'nodes.pop()' in l:
            stmts.append(l)
    for l in stmts:
        if l == 'nodes.pop().unwrap();':
            pops.append(('_', None, None))
            continue
        m = re.fullmatch(r'let (\w+) = Box::new\((\w+)::try_from\(nodes\.pop\(\)\.unwrap\(\)\)\.ok\(\)\.unwrap\(\)\);', l)
        if m:
            if m.group(2) not in e.nkinds:
                raise ExtractError('try_from on unknown nonterminal ' + m.group(2))
            pops.append(('N', e.nkinds.index(m.group(2)), m.group(1)))
            continue
        m = re.fullmatch(r'let (\w+) = nodes\.pop\(\)\.unwrap\(\)\.(\w+)\(\)\.ok\(\)\.unwrap\(\);', l)
        if m:
            if m.group(2) not in e.term_methods:
                raise ExtractError('unknown terminal extraction method ' + m.group(2))
            pops.append(('T', e.term_methods[m.group(2)], m.group(1)))
            continue
        raise ExtractError('unrecognised pop statement: ' + l)
    t = re.findall(r'states\.truncate\(states\.len\(\) - (\d+)\);', body)
    if len(t) > 1:
        raise ExtractError('several truncates')
    trunc = int(t[0]) if t else 0
    if 'states.' in re.sub(r'states\.truncate\(states\.len\(\) - \d+\);', '', body):
        raise ExtractError('unmodelled use of states in reduce body')
    lhs = re.findall(r'%s::(\w+),' % re.escape(e.nkind_enum), body)
    if len(lhs) != 1 or lhs[0] not in e.nkinds:
        raise ExtractError('lhs kind of reduce')
    node = re.search(r'%s::(\w+)\(' % re.escape(e.node_enum), body)
    if not node or node.group(1) != lhs[0]:
        raise ExtractError('node variant differs from nonterminal kind in reduce')
    return {'pops': pops, 'truncate': trunc, 'lhs': e.nkinds.index(lhs[0]), 'body': body}


DRIVER_FUNCS = ['parse_body', 'from_quasiterminal', 'try_into_terminal']


def driver_normal_form(src: str, e: Emitted) -> str:
    """The text of the fixed driver (parse loop, kind conversion, get_action/get_goto),
    with the generated names replaced by placeholders."""
    parts = [e.parse_body]
    m = _need(re.search(r'\nimpl %s \{\n    fn from_quasiterminal\(.*?\n    \}\n' % re.escape(e.qkind_enum), src, re.S),
              'from_quasiterminal')
    parts.append(m.group(0))
    m = _need(re.search(r'\n    fn try_into_terminal\(self\).*?\n    \}\n', src, re.S), 'try_into_terminal')
    parts.append(m.group(0))
    m = _need(re.search(r'\nenum (\w+) \{\n    Terminal\(%s\),\n    (\w+),\n\}' % re.escape(e.term_enum), src), 'Quasiterminal enum')
    quasi, eof = m.group(1), m.group(2)
    text = '\n'.join(parts)
    text = re.sub(r'%s::S\d+' % re.escape(e.state_enum), 'STATE::START', text)
    for name, ph in [(e.qkind_enum, 'QKIND'), (quasi, 'QUASI'), (e.state_enum, 'STATE'), (e.node_enum, 'NODE'),
                     (e.action_enum, 'ACTION'), (e.start_type, 'STARTTYPE'), (e.term_enum, 'TERMENUM'), (eof, 'EOF')]:
        text = re.sub(r'\b%s\b' % re.escape(name), ph, text)
    return text


def check_glue(src: str, e: Emitted):
    """The per-grammar glue between tokens, kinds and nodes must be the identity mapping the
    table model assumes: terminal X -> kind X -> node X -> payload of X; nonterminal N <- node N."""
    terms = e.qkinds[:-1]
    m = _need(re.search(r'    fn from_terminal\(terminal: &%s\) -> Self \{\n        match terminal \{\n(.*?)\n        \}\n    \}' %
                        re.escape(e.term_enum), src, re.S), 'QuasiterminalKind::from_terminal')
    arms = [l.strip() for l in m.group(1).split('\n') if l.strip()]
    want = ['%s::%s(_) => Self::%s,' % (e.term_enum, t, t) for t in terms]
    if arms != want:
        raise ExtractError('kind-of-terminal mapping is not the identity: %r' % arms[:4])
    m = _need(re.search(r'    fn from_terminal\(terminal: %s\) -> Self \{\n        match terminal \{\n(.*?)\n        \}\n    \}' %
                        re.escape(e.term_enum), src, re.S), 'Node::from_terminal')
    arms = [l.strip() for l in m.group(1).split('\n') if l.strip()]
    want = ['%s::%s(t) => Self::%s(t),' % (e.term_enum, t, t) for t in terms]
    if arms != want:
        raise ExtractError('node-of-terminal mapping is not the identity: %r' % arms[:4])
    for n in e.nkinds:
        if not re.search(r'impl TryFrom<%s> for %s \{\n    type Error = %s;\n\n    fn try_from\(node: %s\) -> Result<Self, Self::Error> \{\n'
                         r'        match node \{\n            %s::%s\(n\) => Ok\(n\),\n            _ => Err\(node\),' %
                         (re.escape(e.node_enum), re.escape(n), re.escape(e.node_enum), re.escape(e.node_enum), re.escape(e.node_enum), re.escape(n)), src):
            raise ExtractError('TryFrom<Node> for %s is not the expected projection' % n)
    if len(e.term_methods) != len(terms) or sorted(e.term_methods.values()) != list(range(len(terms))):
        raise ExtractError('try_into_<terminal> methods are not one per terminal')
    for meth, ti in e.term_methods.items():
        if not re.search(r'fn %s\(self\) -> Result<.*?, Self> \{\n\s*match self \{\n\s*Self::%s\(t\) => Ok\(t\),\n\s*_ => Err\(self\),' %
                         (re.escape(meth), re.escape(terms[ti])), src):
            raise ExtractError('method %s is not the expected projection' % meth)
    # node enum: nonterminals then terminals
    vs = _enum_variants(src, e.node_enum, numbered=False)
    names = [re.match(r'(\w+)\(', v).group(1) for v in vs]
    if names != e.nkinds + terms:
        raise ExtractError('Node enum variants differ from kinds')
