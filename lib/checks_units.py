"""Kani harnesses over kiki's own functions (engine E3): C18 (Oset), later C15 and lemmas."""
from __future__ import annotations
import json
import os
import re

import common
from common import Result
import kani_runner

UNITS = os.path.join(common.VERIF, 'harness', 'kani_units')

# (harness, tier, rough cost)
C18_HARNESSES = [
    ('oset_from_iter_u8_n0', 'quick', 3), ('oset_from_iter_u8_n1', 'quick', 3), ('oset_from_iter_u8_n2', 'quick', 4),
    ('oset_from_iter_u8_n3', 'quick', 6), ('oset_from_iter_u8_n4', 'quick', 9), ('oset_from_iter_pair_n2', 'quick', 6),
    ('oset_from_iter_pair_n3', 'quick', 9),
    ('oset_insert_from_valid_m0', 'quick', 3), ('oset_insert_from_valid_m1', 'quick', 3), ('oset_insert_from_valid_m2', 'quick', 4),
    ('oset_insert_from_valid_m3', 'quick', 5), ('oset_insert_from_valid_m4', 'quick', 6), ('oset_insert_from_valid_m6', 'quick', 7),
    ('oset_insert_from_valid_m8', 'quick', 8),
    ('oset_extend_m0_k2', 'quick', 6), ('oset_extend_m2_k0', 'quick', 4), ('oset_extend_m2_k1', 'quick', 7),
    ('oset_extend_m2_k2', 'quick', 10), ('oset_extend_m3_k2', 'quick', 12), ('oset_extend_m4_k3', 'quick', 26),
    ('oset_extend_m5_k1', 'quick', 15),
    ('oset_history_insert_x2', 'quick', 3), ('oset_history_extend_insert', 'quick', 10),
    ('oset_eq_cmp_2_2', 'quick', 8), ('oset_eq_cmp_3_2', 'quick', 12), ('oset_eq_cmp_3_3', 'quick', 17),
    ('oset_eq_cmp_1_3', 'quick', 8), ('oset_eq_cmp_0_2', 'quick', 5),
    ('oset_iteration_n3', 'quick', 7),
    ('oset_vacuity_twin_must_fail', 'quick', 5),
    ('oset_from_iter_concrete_313', 'quick', 4), ('oset_from_iter_concrete_2212', 'quick', 4), ('oset_from_iter_concrete_54321', 'quick', 4),
    ('oset_from_iter_u8_n5', 'thorough', 30), ('oset_from_iter_u8_n6', 'thorough', 60), ('oset_from_iter_u16_n4', 'thorough', 20),
    ('oset_from_iter_pair_n4', 'thorough', 30), ('oset_insert_from_valid_m12', 'thorough', 20),
    ('oset_insert_from_valid_m16', 'thorough', 30), ('oset_extend_m6_k3', 'thorough', 120), ('oset_extend_m4_k4', 'thorough', 120),
    ('oset_eq_cmp_4_4', 'thorough', 120), ('oset_eq_cmp_4_3', 'thorough', 90),
]


def harness_source(fn, name):
    src = open(os.path.join(UNITS, 'src', fn), encoding='utf8').read()
    m = re.search(r'\w+!\(%s,[^\n]*\);' % re.escape(name), src) or re.search(r'fn %s\(\)' % re.escape(name), src)
    return m.group(0) if m else name


def run_kani_property(prop, tier, harnesses, srcfile, module, functions, bounds, assumptions, timeout_quick=300, timeout_thorough=1800):
    R = Result(prop, tier, 'model_checking')
    specs = []
    for name, t, cost in harnesses:
        if t == 'quick' or tier == 'thorough':
            specs.append({'name': module + '::' + name, 'cost': cost, 'timeout': timeout_quick if tier == 'quick' else timeout_thorough,
                          'expect': 'fail' if 'must_fail' in name else 'pass'})
    results = kani_runner.run_many(specs, 'units', UNITS)
    checks = covers = 0
    vtime = 0.0
    samples = []
    twins = 0
    passed = 0
    for r in results:
        checks += r.get('checks', 0)
        covers += r.get('covers_sat', 0)
        vtime += r.get('verification_time', 0.0)
        if r['verdict'] == 'pass':
            passed += 1
            if r['expect'] == 'fail':
                twins += 1
        elif r['verdict'] == 'violation':
            R.violation('harness:' + r['name'], 'Kani harness %s: %s' % (r['name'], r['why']),
                        {'harness': r['name'], 'crate': UNITS, 'failures': r['failures'], 'concrete_playback': r.get('playback')})
        else:
            R.inconclusive.append('%s: %s %s' % (r['name'], r.get('why'), r.get('log_tail', '')[-400:]))
        if len(samples) < 10:
            samples.append({'harness': r['name'], 'decl': harness_source(srcfile, r['name'].split('::')[-1]), 'verdict': r['verdict'],
                            'cbmc_checks': r.get('checks'), 'covers': '%s/%s' % (r.get('covers_sat'), r.get('covers')),
                            'solver_s': r.get('verification_time')})
    R.coverage.update({
        'states': max(1, checks),
        'transitions': max(1, checks),
        'traces_validated_against_impl': covers,
        'samples': samples,
        'explanation': 'states/transitions are not meaningful for a SAT-based bounded model checker; both report the number of CBMC '
                       'properties (assertions, panics, unwinding assertions, memory-safety checks) discharged over all harnesses. '
                       'traces_validated_against_impl = number of kani::cover! witnesses the solver produced on the real code.',
        'harnesses_run': len(results), 'harnesses_passed': passed, 'vacuity_twins_failed_as_expected': twins,
        'cbmc_properties_discharged': checks, 'cover_witnesses': covers, 'solver_time_s': round(vtime, 1),
        'functions_encoded': functions, 'bounds': bounds,
        'checker_cmd': 'cargo kani --harness <name> --exact (Kani 0.68.0, CBMC 6.11.0, CaDiCaL), unwinding assertions on',
        'trusted_base': ['Kani 0.68 / CBMC 6.11 / CaDiCaL', 'rustc (Kani toolchain)', 'harness models in harness/kani_units/src'],
        'exhaustive': False,
    })
    R.assumptions += assumptions
    return R.finish()


def run_c18(tier):
    return run_kani_property(
        'C18', tier, C18_HARNESSES, 'oset.rs', 'oset',
        ['kiki::Oset::{new, default, insert, contains, from_iter, extend, into_iter, deref, eq, cmp, partial_cmp} '
         'instantiated at u8, u16, (u8,u8); std Vec::{insert, extend, sort, sort_unstable, dedup, binary_search} as compiled'],
        'element values fully symbolic; lengths concrete per harness: from_iter <= 4 (6 thorough), insert from an arbitrary valid '
        'set of <= 8 (16) elements, extend valid<=5 + <=3 new (6+3, 4+4), eq/cmp on sets from <= 3+3 (4+4) elements, '
        'two-step histories from new(); longer histories follow by induction over the single-step harnesses, which is an argument, '
        'not a verdict; three-step concrete histories gave no verdict in 15 min',
        ['arbitrary valid state = strictly ascending Vec<u8> of concrete length, injected through transmute::<Vec<u8>, Oset<u8>> '
         '(Oset is a single-field struct; the harness asserts the resulting view)',
         'element types u8/u16/(u8,u8) stand for "any Ord type"; types with a non-total Ord are outside the claim'])


def replay(prop, path):
    obj = json.load(open(path))
    name = obj['replay']['harness']
    res = kani_runner.run_many([{'name': name, 'timeout': 1800, 'playback': True}], 'units', obj['replay'].get('crate', UNITS), jobs=1)
    r = res[0]
    print(json.dumps({k: r.get(k) for k in ('name', 'verdict', 'why', 'failures', 'playback')}, indent=1))
    return 1 if r['verdict'] == 'violation' else (0 if r['verdict'] == 'pass' else 2)
