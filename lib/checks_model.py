"""Engine E2 runner (CBMC over the generated table+driver model) and the checks that
combine E1 and E2: C01, C02, C03, C09."""
from __future__ import annotations
import json
import os
import random
import re
import shutil
import subprocess
import time
from concurrent.futures import ThreadPoolExecutor

import common
from common import Result, log, Inconclusive
import e2gen
import checks_emitted
import corpus as corpus_mod
from grammar import read_kiki, render
from lrref import CFG, canonical_lr1, lalr_from_lr1, tables, classify, lr_run
from extract import extract, driver_normal_form, ExtractError

PROP_LINE = re.compile(r'^\[(\S+)\] line (\d+) (.*): (SUCCESS|FAILURE)$', re.M)


def run_cbmc(cfile, timeout, extra=None):
    cmd = ['cbmc', cfile] + (extra or [])
    t0 = time.time()
    try:
        p = subprocess.run(['bash', '-c', 'ulimit -v %d; exec "$@"' % (24 * 1024 * 1024), 'bash'] + cmd,
                           stdout=subprocess.PIPE, stderr=subprocess.STDOUT, text=True, timeout=timeout)
        out = p.stdout
        to = False
    except subprocess.TimeoutExpired as ex:
        out = (ex.stdout or b'').decode('utf8', 'replace') if isinstance(ex.stdout, bytes) else (ex.stdout or '')
        to = True
    props = [(m.group(1), m.group(3), m.group(4)) for m in PROP_LINE.finditer(out)]
    done = 'VERIFICATION SUCCESSFUL' in out or 'VERIFICATION FAILED' in out
    return {'props': props, 'done': done and not to, 'timeout': to, 'wall': round(time.time() - t0, 1), 'out': out}


def cbmc_trace_kinds(cfile, prop_name, N, timeout):
    r = run_cbmc(cfile, timeout, ['--property', prop_name, '--trace'])
    kinds = {}
    for m in re.finditer(r'\bk(\d+)=(\d+)\b', r['out']):
        kinds[int(m.group(1))] = int(m.group(2))
    if len([i for i in kinds if i < N]) < N:
        return None
    return [kinds[i] for i in range(N)]


class E2Artefact:
    """name, Emitted e, CFG cfg, native(kinds)->('ok',n)|('err',i)|('eof',n)|('panic',msg)|('hang',)"""

    def __init__(self, name, e, cfg, native, src_text):
        self.name, self.e, self.cfg, self.native, self.src_text = name, e, cfg, native, src_text


def decide_length(A: E2Artefact, N, wd, timeout, R: Result, prop, stats, samples):
    cfg = A.cfg
    K = 4 * N + 10
    D = N + 6
    for attempt in range(3):
        cfile = os.path.join(wd, '%s_n%d.c' % (A.name, N))
        open(cfile, 'w').write(e2gen.build_c(A.e, cfg, N, K, D, lr1_ref=getattr(A, 'lr1_ref', None)))
        r = run_cbmc(cfile, timeout)
        if not r['done']:
            R.inconclusive.append('E2 %s N=%d: %s' % (A.name, N, 'timeout after %ds' % timeout if r['timeout'] else 'no verdict: ' + r['out'][-300:]))
            return
        fails = [(n, d) for n, d, s in r['props'] if s == 'FAILURE']
        real = [(n, d) for n, d in fails if 'EXPECTED-FAIL-WITNESS' not in d]
        bound = [(n, d) for n, d in real if 'VERIF-BOUND' in d]
        halts = [(n, d) for n, d in real if 'does not return within K' in d]
        if bound:
            D += 6
            continue
        if halts and attempt < 2:
            K *= 2
            continue
        break
    witnesses = [d.split('WITNESS ')[1] for n, d in fails if 'EXPECTED-FAIL-WITNESS' in d]
    nprops = len(r['props'])
    stats['queries'] += 1
    stats['cbmc_properties'] += nprops
    stats['solver_wall_s'] += r['wall']
    stats['strings'] += (cfg.T ** N)
    stats['witnesses'] += len(witnesses)
    if not witnesses:
        R.inconclusive.append('E2 %s N=%d: vacuity: no outcome class is reachable' % (A.name, N))
    if len(samples) < 12:
        samples.append({'artefact': A.name, 'N': N, 'kind_strings_quantified_over': '%d^%d = %d' % (cfg.T, N, cfg.T ** N),
                        'K_driver_iterations': K, 'stack_depth_bound': D, 'cbmc_properties': nprops, 'wall_s': r['wall'],
                        'reachable_outcomes': witnesses, 'failed': [d for n, d in real]})
    for pname, desc in real:
        tag = re.match(r'(C0[13]|E2|MODEL-VALIDATION|VERIF-BOUND)', desc)
        tag = tag.group(1) if tag else 'E2'
        kinds = cbmc_trace_kinds(cfile, pname, N, timeout)
        if kinds is None:
            R.inconclusive.append('E2 %s N=%d: failing property %r but no trace' % (A.name, N, desc))
            continue
        nat = A.native(kinds)
        refc = classify(cfg, kinds) if all(cfg.productive) else None
        if refc is None and getattr(A, 'lr1_ref', None):
            r1 = lr_run(cfg, A.lr1_ref[0], A.lr1_ref[1], kinds)
            refc = ('ok', N) if r1[0] == 'ok' else (('eof', N) if r1[1] == N else ('err', r1[1]))
        names = ' '.join(cfg.tnames[k] for k in kinds)
        confirmed = False
        if nat[0] in ('panic', 'hang'):
            confirmed = True
        elif refc is not None:
            confirmed = (nat[0], nat[1]) != (refc[0], refc[1])
        else:
            is_sentence = classify(cfg, kinds)[0] == 'ok'
            confirmed = (nat[0] == 'ok') != is_sentence
        detail = '%s N=%d kinds=[%s]: model says "%s"; native parse -> %s; reference -> %s' % (A.name, N, names, desc, nat, refc)
        if not confirmed:
            R.inconclusive.append('E2 counterexample does not reproduce natively (model suspect): ' + detail)
            continue
        # attribution
        mine = (prop == 'C09') or (prop == 'C07' and nat[0] in ('panic', 'hang')) or (prop == 'C01' and (tag in ('C01', 'E2') or nat[0] in ('panic', 'hang'))) or \
               (prop == 'C03' and (tag == 'C03' or (nat[0] in ('panic', 'hang') and (refc is None or refc[0] != 'ok'))))
        if mine:
            R.violation('e2:%s:%s' % (A.name, ','.join(map(str, kinds))), detail,
                        {'artefact': A.name, 'kinds': kinds, 'kind_names': names.split(), 'native': list(nat), 'reference': list(refc) if refc else None,
                         'grammar_file': getattr(A, 'path', None)})
        else:
            R.inconclusive.append('E2: failure belonging to another property: ' + detail)


def validate_model(A: E2Artefact, strings, wd, R: Result, stats, timeout=300):
    """Serval-style: fixed kind strings through native parser, python table simulation and the CBMC model."""
    cfg = A.cfg
    for w in strings:
        nat = A.native(w)
        if nat[0] in ('panic', 'hang'):
            R.inconclusive.append('E2 validation: native parser %s on %s' % (nat, w))
            continue
        res = 1 if nat[0] == 'ok' else 2
        cfile = os.path.join(wd, '%s_val.c' % A.name)
        N = len(w)
        open(cfile, 'w').write(e2gen.build_c(A.e, cfg, N, 4 * N + 10, N + 6, fixed=w, expect=(res, nat[1])))
        r = run_cbmc(cfile, timeout)
        bad = [d for n, d, s in r['props'] if s == 'FAILURE' and 'EXPECTED-FAIL-WITNESS' not in d]
        stats['model_validation_runs'] += 1
        if not r['done'] or bad:
            R.inconclusive.append('E2 model validation failed for %s on %s: %s' % (A.name, w, bad or r['out'][-300:]))


def check_driver_fidelity(A: E2Artefact, template_nf, R):
    try:
        nf = driver_normal_form(A.src_text, A.e)
    except ExtractError as ex:
        R.inconclusive.append('E2 %s: driver not modelled (%s)' % (A.name, ex))
        return False
    if nf != template_nf:
        R.inconclusive.append('E2 %s: driver text differs from the modelled driver loop; refusing to model it' % A.name)
        return False
    return True


MODELLED_DRIVER_SHA = None


def modelled_driver_nf():
    """Normal form of the driver this model was written against (harness/e2/driver_normal_form.txt)."""
    p = os.path.join(common.VERIF, 'harness', 'e2', 'driver_normal_form.txt')
    return open(p, encoding='utf8').read()


# ----------------------------------------------------------------------------
# artefact builders
# ----------------------------------------------------------------------------

def parser_rs_artefact():
    path = os.path.join(common.REPO, 'kiki', 'src', 'parser.rs')
    src = open(path, encoding='utf8').read()
    e = extract(src)
    g = read_kiki(open(os.path.join(common.REPO, 'kiki', 'src', 'parser.kiki'), encoding='utf8').read(), 'parser')
    cfg = CFG(g)
    if e.qkinds[:-1] != cfg.tnames or e.nkinds != cfg.ntnames:
        raise Inconclusive('parser.rs kind enums differ from parser.kiki declarations')
    wd = common.workdir('e2_parser')

    def native(kinds):
        p = os.path.join(wd, 'kinds_%d.txt' % (abs(hash(tuple(kinds))) % 10 ** 9))
        open(p, 'w').write(' '.join(cfg.tnames[k] for k in kinds))
        r = common.kgen_one('parsekinds', p)
        if r['status'] == 'ok':
            return ('ok', len(kinds))
        if r['status'] == 'err':
            return ('eof', len(kinds)) if r['index'] is None else ('err', r['index'])
        return (r['status'] if r['status'] in ('panic', 'hang') else 'panic', r.get('msg', ''))
    A = E2Artefact('parser_rs', e, cfg, native, src)
    A.path = path
    return A, g


def corpus_artefact(name, path):
    """Corpus grammar with P / () payloads: real generate, native build of the unshimmed module."""
    P = checks_emitted.prepare_grammar(name, path, 'e2nat')
    if P.error:
        if P.gen.get('status') == 'err' and P.gen['err']['variant'] == 'TableConflict':
            return None, None      # generate rejected the grammar: outside C01/C03's quantifier
        return None, P.error
    if not checks_emitted.build_native_raw(P):
        return None, 'native build failed: ' + (P.native_error or '')[-500:]
    e = extract(P.gen['rust'])
    cfg = CFG(P.g)

    def native(kinds):
        try:
            p = subprocess.run([P.native['release'], 'raw', ','.join(map(str, kinds))], stdout=subprocess.PIPE, stderr=subprocess.PIPE,
                               text=True, timeout=10)
        except subprocess.TimeoutExpired:
            return ('hang',)
        m = re.search(r'RAW (ok|err|eof)(?: kind=(\d+) pulls=(\d+) tag=(\d+))?', p.stdout)
        if p.returncode != 0 or not m:
            return ('panic', p.stderr[-300:])
        if m.group(1) == 'ok':
            return ('ok', len(kinds))
        if m.group(1) == 'eof':
            return ('eof', len(kinds))
        tag = int(m.group(4))
        pulls = int(m.group(3))
        return ('err', tag if tag != 0xEE else pulls - 1)
    A = E2Artefact(name, e, cfg, native, P.gen['rust'])
    A.path = path
    if not all(cfg.productive):
        # reference canonical LR(1) tables for the error index (property C03's rule for unproductive nonterminals)
        lr1 = P.ref[0]
        a1, g1, c1 = P.ref[1]
        if not c1:
            A.lr1_ref = (a1, g1)
    return A, None


def e2_corpus_files(tier, seed):
    """Curated conflict-free grammars rendered with P payloads + the E1 corpus, for E2."""
    wd = common.workdir('e2_corpus')
    out = []
    import glob
    for f in sorted(glob.glob(os.path.join(common.VERIF, 'corpus', 'e1', '*.kiki'))):
        out.append((os.path.basename(f)[:-5], f))
    style = dict(random_skip=True, payload='crate::payload::P')
    for name, exp, g in corpus_mod.curated(random.Random(seed + 11), style):
        # every curated grammar, whatever its classification: the property speaks about every grammar that
        # generate ACCEPTS (the reference circuit recognises any CFG, ambiguous or not)
        if not g.terminals:
            continue
        if any(nt.name == 'S' for nt in g.nonterminals):
            # defect D6 (generic parameter S of parse captures a user type called S) is C05's business; rename
            txt = render(g)
            txt = re.sub(r'\bS\b', 'Sx', txt)
        else:
            txt = render(g)
        p = os.path.join(wd, 'cur_%s.kiki' % name)
        open(p, 'w', encoding='utf8').write(txt)
        out.append(('cur_' + name, p))
    # seeded samples of the exhaustive tiny tier and of the epsilon-chain family (payload P, all fields used)
    rng = random.Random(seed + 23)
    tiny = corpus_mod.tiny_exhaustive()
    fam = corpus_mod.eps_chain_family()
    picks = rng.sample(tiny, 80 if tier == 'quick' else 600) + rng.sample(fam, 24 if tier == 'quick' else len(fam))
    pstyle = dict(fieldset='tuple', skip='none', single='enum', payload='crate::payload::P')
    for name, exp, nts, rules in picks:
        g = corpus_mod.build(name, nts, rules, pstyle)
        if not g.terminals:
            continue
        txt = re.sub(r'\bS\b', 'Sx', render(g))
        p = os.path.join(wd, name + '.kiki')
        open(p, 'w', encoding='utf8').write(txt)
        out.append((name, p))
    return out


# ----------------------------------------------------------------------------
# the checks
# ----------------------------------------------------------------------------

E1_SETS = {
    # prop: tier: [(grammar, max n)]
    'C01': {'quick': [('l1_lalr_not_slr', 2), ('l2_nullable_la', 3), ('l3_expr_list', 3)],
            'thorough': [('l1_lalr_not_slr', 4), ('l2_nullable_la', 4), ('l3_expr_list', 4), ('l4_unproductive', 4), ('m8_eps_mid_named', 4)]},
    'C02': {'quick': [('m1_tuple_mix', 3), ('m2_named_mix', 3), ('m3_struct_chain', 3), ('m4_left_rec', 3), ('m5_right_rec_named', 3),
                      ('m6_all_skipped', 3), ('m7_unit_payload', 2), ('m8_eps_mid_named', 3), ('m9_underscore_names', 3), ('m10_prefix_terminals', 3)],
            'thorough': [('m1_tuple_mix', 4), ('m2_named_mix', 4), ('m3_struct_chain', 4), ('m4_left_rec', 5), ('m5_right_rec_named', 5),
                         ('m6_all_skipped', 4), ('m7_unit_payload', 3), ('m8_eps_mid_named', 4), ('m9_underscore_names', 4), ('m10_prefix_terminals', 4), ('l1_lalr_not_slr', 3), ('l3_expr_list', 4)]},
    'C03': {'quick': [('l4_unproductive', 3), ('l5_never', 3), ('m4_left_rec', 3), ('m5_right_rec_named', 3)],
            'thorough': [('l4_unproductive', 4), ('l5_never', 4), ('m4_left_rec', 5), ('m5_right_rec_named', 5), ('m1_tuple_mix', 4), ('l2_nullable_la', 4)]},
}


def run_e1_sets(prop, tier, R):
    sets = E1_SETS[prop][tier]
    names = [g for g, n in sets]
    lengths = {g: list(range(0, n + 1)) for g, n in sets}
    return checks_emitted.run_e1(prop, tier, names, lengths, R, 1500 if tier == 'quick' else 5400)


def e2_over(artefacts, lengths_of, R, prop, tier, wd):
    stats = {'queries': 0, 'cbmc_properties': 0, 'solver_wall_s': 0.0, 'strings': 0, 'witnesses': 0, 'model_validation_runs': 0,
             'artefacts': 0, 'refused': 0}
    samples = []
    nf = modelled_driver_nf()
    jobs = []
    for A in artefacts:
        ok = check_driver_fidelity(A, nf, R)
        if ok:
            try:
                from extract import check_glue
                check_glue(A.src_text, A.e)
            except ExtractError as ex:
                R.inconclusive.append('E2 %s: glue not modelled (%s)' % (A.name, ex))
                ok = False
        if not ok:
            stats['refused'] += 1
            continue
        stats['artefacts'] += 1
        for N in lengths_of(A):
            jobs.append((A, N))
    timeout = 600 if tier == 'quick' else 3600
    jobs.sort(key=lambda j: -(j[1] * 100 + j[0].cfg.T))

    def work(job):
        A, N = job
        decide_length(A, N, wd, timeout, R, prop, stats, samples)
    with ThreadPoolExecutor(max_workers=common.NCPU) as ex:
        list(ex.map(work, jobs))
    return stats, samples


def corpus_artefacts(tier, R):
    arts = []
    files = e2_corpus_files(tier, common.seed())
    common.build_kgen()
    with ThreadPoolExecutor(max_workers=common.NCPU) as ex:
        res = list(ex.map(lambda nf: corpus_artefact(nf[0], nf[1]), files))
    for (name, path), (A, err) in zip(files, res):
        if A is None:
            if err is not None:
                R.inconclusive.append('E2 corpus %s: %s' % (name, err))
        else:
            arts.append(A)
    return arts


def run_c01_c03(prop, tier):
    R = Result(prop, tier, 'translation_validation')
    wd = common.workdir('e2_%s' % prop)
    import threading
    box = {}
    def e1_thread():
        try:
            box['e1'] = run_e1_sets(prop, tier, R)
        except Exception:
            import traceback
            box['err'] = traceback.format_exc()
    th = threading.Thread(target=e1_thread)
    th.start()
    arts = corpus_artefacts(tier, R)
    maxlen = 6 if tier == 'quick' else 8

    def lengths_of(A):
        # keep T^N within reach of one CBMC query; the bound is per artefact and reported
        out = []
        for N in range(0, maxlen + 1):
            out.append(N)
        return out
    e2_stats, e2_samples = e2_over(arts, lengths_of, R, prop, tier, wd)
    th.join()
    if 'err' in box:
        raise Inconclusive('E1 runner crashed:\n' + box['err'])
    e1_stats, e1_samples = box['e1']
    rng = random.Random(common.seed())
    for A in arts[:6]:
        T = A.cfg.T
        validate_model(A, [[rng.randrange(T) for _ in range(rng.randrange(1, 6))] for _ in range(2)], wd, R, e2_stats)
    R.coverage.update({
        'programs': e2_stats['artefacts'] + len({s['grammar'] for s in e1_samples}),
        'disagreements_checked': len(R.violations) + len(R.known_hits),
        'samples': e1_samples[:6] + e2_samples[:6],
        'E1_kani_on_real_emitted_code': e1_stats,
        'E2_cbmc_on_table_model': e2_stats,
        'functions_encoded': ['E1: the whole emitted module as compiled by Kani (parse, get_action, get_goto, pop_and_reduce, reduce_rN, '
                              'TryFrom impls, try_into_* methods, Iterator::{map,chain,peekable}); Vec/Box/vec! replaced by harness/e1/vstd.rs',
                              'E2: ACTION/GOTO tables, start state and reduce descriptors extracted from the emitted text + the fixed driver '
                              'loop (text-compared with harness/e2/driver_normal_form.txt) + reference recogniser circuit of the declared grammar'],
        'bounds': 'E1: all kind strings and all payload bytes for n <= per-grammar bound (%s); E2: all kind strings of every length <= %d; '
                  'driver iterations K = 4N+10 (asserted), stack depth N+6 (asserted)' % (E1_SETS[prop][tier], maxlen),
        'solver': 'Kani 0.68/CBMC 6.11 CaDiCaL (E1); CBMC 6.11 MiniSat/CaDiCaL default (E2)',
        'trusted_base': ['reference Earley / canonical-LR(1) / circuit recognisers in lib/', 'independent .kiki reader', 'table extractor + driver/glue text checks (E2)',
                         'container shim harness/e1/vstd.rs (E1)', 'Kani, CBMC, rustc'],
        'exhaustive': False,
    })
    R.assumptions += ['programs quantifier is a corpus', 'input length bounded as stated; longer inputs are outside the claim',
                      'E2 models the driver text; if the emitted driver or glue text differs from the modelled one E2 refuses (exit 2) and only E1 speaks']
    return R.finish()


def all_e1_names():
    import glob
    return [os.path.basename(f)[:-5] for f in sorted(glob.glob(os.path.join(common.VERIF, 'corpus', 'e1', '*.kiki')))]


def run_c02(tier):
    R = Result('C02', tier, 'model_checking')
    import threading
    box = {}

    def steps():
        try:
            # corpus/e1 plus curated grammars rendered with seeded random fieldset styles and `_` patterns
            extra = [(n, p) for n, p in e2_corpus_files(tier, common.seed() + 101) if n.startswith('cur_')]
            if tier == 'quick':
                extra = random.Random(common.seed()).sample(extra, 12)
            box['steps'] = checks_emitted.run_reduce_steps('C02', tier, all_e1_names() + extra, R)
        except Exception:
            import traceback
            box['err'] = traceback.format_exc()
    th = threading.Thread(target=steps)
    th.start()
    st, samples = run_e1_sets('C02', tier, R)
    th.join()
    if 'err' in box:
        R.inconclusive.append('reduce-step leg crashed: ' + box['err'][-600:])
    step_stats, step_samples = box.get('steps', ({}, []))
    R.coverage.update({
        'states': max(1, st['cbmc_checks']), 'transitions': max(1, st['cbmc_checks']),
        'traces_validated_against_impl': st['native_validation_runs'],
        'samples': samples,
        'explanation': 'SAT-based bounded model checking: states/transitions report CBMC properties discharged; '
                       'traces_validated_against_impl = runs of the same harness code against the unshimmed emitted module built by plain rustc (dev+release)',
        'E1_kani_on_real_emitted_code': st,
        'E1_reduce_steps': step_stats,
        'reduce_step_samples': step_samples,
        'functions_encoded': ['the whole emitted module as compiled by Kani; Vec/Box/vec! replaced by harness/e1/vstd.rs; '
                              'tree walker generated from the declarations (explicit exhaustive patterns)',
                              'reduce steps: pop_and_reduce + reduce_rN of every rule of every corpus/e1 grammar from a stack holding the '
                              'minimal trees of the rhs symbols with symbolic payload bytes (rule lengths up to 13)'],
        'bounds': 'all kind strings and all payload bytes for n <= per-grammar bound: %s' % (E1_SETS['C02'][tier],),
        'trusted_base': ['reference span parser (unique derivation) in lib/lrref.py', 'container shim', 'Kani, CBMC, rustc'],
        'exhaustive': False,
    })
    R.assumptions += ['fieldset-pattern matrix corpus (corpus/e1/m*.kiki), not all grammars', 'payload identity via (position tag, free symbolic byte)']
    return R.finish()


def run_c09(tier):
    R = Result('C09', tier, 'translation_validation')
    wd = common.workdir('e2_C09')
    A, g = parser_rs_artefact()
    # unbounded leg: table isomorphism with the reference LALR(1) automaton of parser.kiki
    import checks_tables
    import autiso
    cfg, la, act, goto, conf = checks_tables.reference(g)
    iso_info = {}
    if conf:
        R.violation('parser.kiki:conflict', 'reference LALR(1) automaton of parser.kiki has conflicts', {})
    else:
        probs = checks_tables.check_reduce_descriptors(A.e, cfg)
        if probs:
            R.violation('parser.rs:reduce-descriptors', '; '.join(probs[:3]), {})
        TA = autiso.ta_from_tables(A.e.action, A.e.goto, A.e.start_state, checks_tables.symnames(cfg))
        TB = autiso.ta_from_tables(act, goto, 0, checks_tables.symnames(cfg))
        o = autiso.decide_iso(TA, TB)
        iso_info = {'queries': o.queries, 'solver_time_s': round(o.solver_time, 2), 'isomorphic': o.iso}
        if o.iso is False:
            R.violation('parser.rs:tables', 'parser.rs tables are not the LALR(1) tables of parser.kiki: ' + o.reason, {'cex': o.counterexample})
        elif o.iso is None:
            R.inconclusive.append('parser.rs table isomorphism: ' + o.reason)
    maxlen = 8 if tier == 'quick' else 11
    # byte span / text leg: Kani span harnesses on the real unexpected_token_or_eof_to_kiki_err (in parallel)
    import threading
    import checks_total
    import checks_tok
    span_box = {}

    def span_thread():
        try:
            span_box['res'] = checks_total.run_span(tier)
        except Exception:
            import traceback
            span_box['err'] = traceback.format_exc()
    th = threading.Thread(target=span_thread)
    th.start()
    st, samples = e2_over([A], lambda A: list(range(0, maxlen + 1)), R, 'C09', tier, wd)
    th.join()
    span_stats = {'harnesses': 0, 'passed': 0, 'twins': 0, 'cbmc_checks': 0, 'covers': 0, 'solver_s': 0.0}
    span_samples = []
    if 'err' in span_box:
        R.inconclusive.append('span harness leg crashed: ' + span_box['err'][-500:])
    else:
        checks_tok.fold('C09', tier, R, span_box['res'], span_stats, span_samples, 'unit')
    # model validation on prefixes of the repo's example files
    vals = []
    for name, path in corpus_mod.repo_examples(common.REPO)[:4]:
        r = common.kgen_one('lex', path)
        if r['status'] == 'ok':
            kinds = [cfg.tnames.index(t[0]) for t in r['tokens']]
            vals.append(kinds[:7])
            vals.append(kinds[:10] + [cfg.tnames.index('Comma')])
    validate_model(A, vals[:4 if tier == 'quick' else 8], wd, R, st)
    R.coverage.update({
        'programs': 1,
        'disagreements_checked': len(R.violations) + len(R.known_hits),
        'samples': samples[:12],
        'table_isomorphism_unbounded': iso_info,
        'span_harnesses': span_stats,
        'span_samples': span_samples[:6],
        'E2_cbmc_on_table_model': st,
        'functions_encoded': ['kiki/src/parser.rs: ACTION_TABLE, GOTO_TABLE, start state, 42 inlined reductions (pop kinds, truncate, lhs), '
                              'driver loop text-compared with the modelled driver', 'reference recogniser circuit of kiki/src/parser.kiki'],
        'bounds': 'all token-kind sequences (17 kinds) of every length <= %d; plus unbounded table isomorphism with the reference LALR(1) automaton' % maxlen,
        'trusted_base': ['reference circuit / LALR(1) builder', 'independent reader of parser.kiki', 'extractor + driver/glue text checks', 'CBMC, z3'],
        'exhaustive': False,
    })
    R.assumptions += ['byte span / text of the error: Kani span harnesses (harness/kani_units/src/span.rs) build each token kind the way the tokenizer does (post-condition of the C08 step harnesses) and run the real conversion; windows of 12 bytes, token positions 0..3, lexemes <= 6 bytes',
                      'payload-independence of the front-end parser: from_terminal matches on the variant only (checked textually)']
    return R.finish()


def replay(prop, path):
    obj = json.load(open(path))
    rp = obj['replay']
    if 'vals' in rp or rp.get('step') or rp.get('shape'):
        return checks_emitted.replay_e1(obj)
    if rp.get('artefact') == 'parser_rs':
        A, g = parser_rs_artefact()
    else:
        A, err = corpus_artefact(rp['artefact'], rp['grammar_file'])
        if A is None:
            print(err)
            return 2
    nat = A.native(rp['kinds'])
    ref = classify(A.cfg, rp['kinds'])
    print('native:', nat, 'reference:', ref)
    return 1 if (nat[0] in ('panic', 'hang') or (nat[0], nat[1]) != (ref[0], ref[1])) else 0
