"""Grammar model, an independent reader of the .kiki syntax, and a renderer.

This file shares no code with kiki.  The reader is written from USER_GUIDE.md
and kiki/src/parser.kiki (the grammar of record); it is used by the checks to
obtain the *declared* grammar (one production per struct / enum variant, rhs =
field symbols in order, `_` fields included) against which kiki's artefacts are
judged.
"""
from __future__ import annotations
import re
from dataclasses import dataclass, field
from typing import List, Optional, Tuple


@dataclass(frozen=True)
class Sym:
    kind: str  # 'T' terminal, 'N' nonterminal
    name: str

    def __str__(self):
        return ('$' if self.kind == 'T' else '') + self.name


@dataclass
class Field:
    name: Optional[str]   # field name for named fieldsets (None when '_' or tuple)
    used: bool            # False for `_: X`
    sym: Sym


@dataclass
class Fieldset:
    kind: str             # 'empty' | 'named' | 'tuple'
    fields: List[Field] = field(default_factory=list)

    def syms(self):
        return [f.sym for f in self.fields]

    def has_used(self):
        return any(f.used for f in self.fields)


@dataclass
class Variant:
    name: str
    fieldset: Fieldset


@dataclass
class Nonterminal:
    kind: str             # 'struct' | 'enum'
    name: str
    attrs: List[str] = field(default_factory=list)
    fieldset: Optional[Fieldset] = None       # struct
    variants: List[Variant] = field(default_factory=list)  # enum


@dataclass
class Rule:
    index: int
    lhs: str
    rhs: List[Sym]
    type_name: str
    variant: Optional[str]
    fieldset: Fieldset


@dataclass
class Grammar:
    start: str
    term_enum: str
    terminals: List[Tuple[str, str]]          # (name, rendered type)
    nonterminals: List[Nonterminal]
    term_attrs: List[str] = field(default_factory=list)
    name: str = ''

    def rules(self) -> List[Rule]:
        out = []
        for nt in self.nonterminals:
            if nt.kind == 'struct':
                out.append(Rule(len(out), nt.name, nt.fieldset.syms(), nt.name, None, nt.fieldset))
            else:
                for v in nt.variants:
                    out.append(Rule(len(out), nt.name, v.fieldset.syms(), nt.name, v.name, v.fieldset))
        return out

    def term_names(self):
        return [t for t, _ in self.terminals]

    def nt_names(self):
        return [n.name for n in self.nonterminals]

    def bnf(self):
        lines = []
        for r in self.rules():
            lines.append('%d: %s -> %s' % (r.index, r.lhs, ' '.join(str(s) for s in r.rhs) or 'eps'))
        return lines


# ----------------------------------------------------------------------------
# Independent reader
# ----------------------------------------------------------------------------

class KikiSyntaxError(Exception):
    pass


RESERVED = {'start', 'struct', 'enum', 'terminal', '_'}
PUNCT = {':': 'Colon', ',': 'Comma', '(': 'LParen', ')': 'RParen', '{': 'LCurly', '}': 'RCurly',
         '<': 'LAngle', '>': 'RAngle'}


def lex(src: str):
    """Token list [(kind, text, byte_pos)] per the documented lexical rules."""
    toks = []
    i = 0
    n = len(src)
    bpos = 0  # byte position

    def blen(s):
        return len(s.encode('utf-8'))
    while i < n:
        c = src[i]
        if c.isspace():
            i += 1; bpos += blen(c); continue
        if c == '/':
            if i + 1 < n and src[i + 1] == '/':
                j = src.find('\n', i)
                j = n if j < 0 else j
                bpos += blen(src[i:j]); i = j; continue
            raise KikiSyntaxError('lex %d /' % bpos)
        if c.isascii() and (c.isalpha() or c == '_'):
            j = i
            while j < n and src[j].isascii() and (src[j].isalnum() or src[j] == '_'):
                j += 1
            w = src[i:j]
            kind = {'start': 'StartKw', 'struct': 'StructKw', 'enum': 'EnumKw', 'terminal': 'TerminalKw',
                    '_': 'Underscore'}.get(w, 'Ident')
            toks.append((kind, w, bpos)); bpos += j - i; i = j; continue
        if c == '$':
            j = i + 1
            if j < n and src[j].isascii() and (src[j].isalpha() or src[j] == '_'):
                while j < n and src[j].isascii() and (src[j].isalnum() or src[j] == '_'):
                    j += 1
                w = src[i + 1:j]
                if w in RESERVED:
                    raise KikiSyntaxError('lex reserved after $ at %d' % (bpos + j - i))
                toks.append(('TerminalIdent', w, bpos)); bpos += j - i; i = j; continue
            raise KikiSyntaxError('lex %d $' % bpos)
        if c == ':':
            if i + 1 < n and src[i + 1] == ':':
                toks.append(('DoubleColon', '::', bpos)); i += 2; bpos += 2; continue
            toks.append(('Colon', ':', bpos)); i += 1; bpos += 1; continue
        if c == '#':
            if not (i + 1 < n and src[i + 1] == '['):
                raise KikiSyntaxError('lex %d #' % bpos)
            stack = []
            j = i + 1
            while True:
                if j >= n or src[j] == '\n':
                    raise KikiSyntaxError('lex unterminated attribute at %d' % bpos)
                d = src[j]
                if d in '([{':
                    stack.append(d)
                elif d in ')]}':
                    if not stack or stack[-1] + d not in ('()', '[]', '{}'):
                        raise KikiSyntaxError('lex mismatched bracket in attribute')
                    stack.pop()
                    if not stack:
                        j += 1
                        break
                j += 1
            w = src[i:j]
            toks.append(('OuterAttribute', w, bpos)); bpos += blen(w); i = j; continue
        if c in PUNCT:
            toks.append((PUNCT[c], c, bpos)); i += 1; bpos += 1; continue
        raise KikiSyntaxError('lex %d %r' % (bpos, c))
    return toks


class _P:
    def __init__(self, toks):
        self.t = toks
        self.i = 0

    def peek(self):
        return self.t[self.i][0] if self.i < len(self.t) else None

    def next(self, kind=None):
        if self.i >= len(self.t):
            raise KikiSyntaxError('unexpected eof')
        k, w, p = self.t[self.i]
        if kind is not None and k != kind:
            raise KikiSyntaxError('expected %s got %s at %d' % (kind, k, p))
        self.i += 1
        return w

    def symbol(self):
        if self.peek() == 'Ident':
            return Sym('N', self.next())
        return Sym('T', self.next('TerminalIdent'))

    def fieldset(self):
        if self.peek() == 'LCurly':
            self.next()
            fs = []
            while True:
                if self.peek() == 'Underscore':
                    self.next(); self.next('Colon'); fs.append(Field(None, False, self.symbol()))
                else:
                    nm = self.next('Ident'); self.next('Colon'); fs.append(Field(nm, True, self.symbol()))
                if self.peek() == 'RCurly':
                    self.next(); break
            return Fieldset('named', fs)
        if self.peek() == 'LParen':
            self.next()
            fs = []
            while True:
                if self.peek() == 'Underscore':
                    self.next(); self.next('Colon'); fs.append(Field(None, False, self.symbol()))
                else:
                    fs.append(Field(None, True, self.symbol()))
                if self.peek() == 'RParen':
                    self.next(); break
            return Fieldset('tuple', fs)
        return Fieldset('empty', [])

    def path(self):
        parts = [self.next('Ident')]
        while self.peek() == 'DoubleColon':
            self.next(); parts.append(self.next('Ident'))
        return '::'.join(parts)

    def type_(self):
        if self.peek() == 'LParen':
            self.next(); self.next('RParen'); return '()'
        p = self.path()
        if self.peek() == 'LAngle':
            self.next()
            args = [self.type_()]
            while self.peek() == 'Comma':
                self.next(); args.append(self.type_())
            self.next('RAngle')
            return '%s<%s>' % (p, ', '.join(args))
        return p


def read_kiki(src: str, name: str = '') -> Grammar:
    """Parse a .kiki text.  Raises KikiSyntaxError on lexical / syntactic errors and
    on files without exactly one start / terminal declaration."""
    p = _P(lex(src))
    starts, terms, nts = [], [], []
    while p.peek() is not None:
        if p.peek() == 'StartKw':
            p.next(); starts.append(p.next('Ident')); continue
        attrs = []
        while p.peek() == 'OuterAttribute':
            attrs.append(p.next())
        k = p.peek()
        if k == 'StructKw':
            p.next(); nm = p.next('Ident'); nts.append(Nonterminal('struct', nm, attrs, fieldset=p.fieldset()))
        elif k == 'EnumKw':
            p.next(); nm = p.next('Ident'); p.next('LCurly')
            vs = []
            while p.peek() != 'RCurly':
                vn = p.next('Ident'); vs.append(Variant(vn, p.fieldset()))
            p.next('RCurly')
            nts.append(Nonterminal('enum', nm, attrs, variants=vs))
        elif k == 'TerminalKw':
            p.next(); nm = p.next('Ident'); p.next('LCurly')
            vs = []
            while p.peek() != 'RCurly':
                tn = p.next('TerminalIdent'); p.next('Colon'); vs.append((tn, p.type_()))
            p.next('RCurly')
            terms.append((nm, attrs, vs))
        else:
            raise KikiSyntaxError('unexpected %s' % k)
    if len(starts) != 1 or len(terms) != 1:
        raise KikiSyntaxError('need exactly one start and one terminal declaration')
    return Grammar(starts[0], terms[0][0], terms[0][2], nts, terms[0][1], name)


# ----------------------------------------------------------------------------
# Renderer (abstract grammar -> .kiki text), with layout knobs
# ----------------------------------------------------------------------------

def render_fieldset(fs: Fieldset, ind='    ', nl='\n') -> str:
    if fs.kind == 'empty':
        return ''
    parts = []
    for f in fs.fields:
        if fs.kind == 'named':
            parts.append('%s: %s' % (f.name if f.used else '_', f.sym))
        else:
            parts.append(str(f.sym) if f.used else '_: %s' % f.sym)
    o, c = ('{', '}') if fs.kind == 'named' else ('(', ')')
    return ' ' + o + nl + ''.join(ind * 2 + p + nl for p in parts) + ind + c


def render(g: Grammar, nl='\n', comments=False, order=None) -> str:
    out = []
    items = []
    items.append(('start', 'start %s%s' % (g.start, nl)))
    for nt in g.nonterminals:
        s = ''.join(a + nl for a in nt.attrs)
        if nt.kind == 'struct':
            fs = render_fieldset(nt.fieldset, nl=nl)
            # struct fieldset is at top level: de-indent one level
            fs = fs.replace(nl + '        ', nl + '    ').replace(nl + '    }', nl + '}').replace(nl + '    )', nl + ')')
            s += 'struct %s%s%s' % (nt.name, fs, nl)
        else:
            s += 'enum %s {%s' % (nt.name, nl)
            for v in nt.variants:
                s += '    %s%s%s' % (v.name, render_fieldset(v.fieldset, nl=nl), nl)
            s += '}' + nl
        items.append(('nt', s))
    s = ''.join(a + nl for a in g.term_attrs)
    s += 'terminal %s {%s' % (g.term_enum, nl)
    for t, ty in g.terminals:
        s += '    $%s: %s%s' % (t, ty, nl)
    s += '}' + nl
    items.append(('term', s))
    if order is not None:
        items = [items[i] for i in order]
    for k, s in items:
        if comments:
            out.append('// item ' + k + ' é中' + nl)
        out.append(s)
        out.append(nl)
    return ''.join(out)
