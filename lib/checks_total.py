"""C07: generate is total.  Solver-decided legs: tokenizer step harnesses (panic checks from every valid
state), remove_dollars, the parse-error span conversion, and the front-end parser's table model (no
unwrap failure, halts).  The HashMap-based middle and back end are NOT solver-decided; every native
generate run of a broad corpus under catch_unwind + watchdog is recorded as a concrete witness and a
panic / abort / hang there is reported as a violation with the input file as replay."""
from __future__ import annotations
import glob
import hashlib
import json
import os
import random

import common
from common import Result
import checks_tok
import kani_runner

SPAN = ['span_underscore', 'span_start_kw', 'span_struct_kw', 'span_enum_kw', 'span_terminal_kw', 'span_colon', 'span_double_colon',
        'span_comma', 'span_lparen', 'span_rparen', 'span_lcurly', 'span_rcurly', 'span_langle', 'span_rangle', 'span_ident',
        'span_terminal_ident', 'span_outer_attribute', 'span_end_of_input', 'span_twin_must_fail']


def run_span(tier):
    units = os.path.join(common.VERIF, 'harness', 'kani_units')
    specs = [{'name': 'span::' + n, 'cost': 5, 'timeout': 600, 'expect': 'fail' if 'must_fail' in n else 'pass'} for n in SPAN]
    return kani_runner.run_many(specs, 'units', units)


def mutate(rng, data: bytes) -> bytes:
    s = data.decode('utf8', 'replace')
    alphabet = ['$', '#', '[', ']', '(', ')', '{', '}', '<', '>', ':', ',', '_', '/', '\n', ' ', 'a', 'Z', '0', 'é', '中', '😀', ' ',
                'start', 'struct', 'enum', 'terminal', '$X', 'A', '::', '//', '#[', '\r\n']
    for _ in range(rng.randrange(1, 4)):
        if not s:
            s = rng.choice(alphabet)
            continue
        i = rng.randrange(len(s) + 1)
        op = rng.randrange(4)
        if op == 0:
            s = s[:i] + rng.choice(alphabet) + s[i:]
        elif op == 1 and i < len(s):
            j = min(len(s), i + rng.randrange(1, 6))
            s = s[:i] + s[j:]
        elif op == 2 and i < len(s):
            s = s[:i] + rng.choice(alphabet) + s[i + 1:]
        else:
            j = rng.randrange(len(s) + 1)
            a, b = min(i, j), max(i, j)
            s = s[:a] + s[b:] + s[a:b]   # move a chunk
    return s.encode('utf8')


def native_leg(R: Result, tier):
    wd = common.workdir('total')
    files = []
    for f in sorted(glob.glob(os.path.join(common.VERIF, 'corpus', 'total', '*.kiki'))):
        files.append(('total/' + os.path.basename(f), f))
    for f in sorted(glob.glob(os.path.join(common.REPO, 'kiki', 'src', 'examples', '**', '*.kiki'), recursive=True)):
        files.append(('repo/' + os.path.relpath(f, os.path.join(common.REPO, 'kiki', 'src', 'examples')), f))
    files.append(('repo/parser.kiki', os.path.join(common.REPO, 'kiki', 'src', 'parser.kiki')))
    import checks_tables
    os.makedirs(os.path.join(wd, 'corpus'), exist_ok=True)
    items = checks_tables.materialise(tier, common.seed(), want_tiny=300 if tier == 'quick' else 3000,
                                      n_random=150 if tier == 'quick' else 1500, wd=os.path.join(wd, 'corpus'))
    for it in items:
        files.append(('corpus/' + it['name'], it['path']))
    # seeded mutations of well-formed files
    rng = random.Random(common.seed() * 1000003 + 7)
    seeds = [open(p, 'rb').read() for _, p in files[:60]]
    nmut = 3000 if tier == 'quick' else 60000
    md = os.path.join(wd, 'mut')
    os.makedirs(md, exist_ok=True)
    for i in range(nmut):
        data = mutate(rng, rng.choice(seeds))
        p = os.path.join(md, 'm%05d.kiki' % i)
        with open(p, 'wb') as f:
            f.write(data)
        files.append(('mut/%d' % i, p))
    res = common.kgen_many('gen', [p for _, p in files], timeout_each=20)
    counts = {}
    bad = {}
    for (name, p), r in zip(files, res):
        st = r['status']
        if st == 'err':
            st = 'err:' + r['err']['variant']
        counts[st] = counts.get(st, 0) + 1
        if r['status'] in ('panic', 'abort', 'hang'):
            msg = (r.get('msg') or r.get('output') or r['status'])
            key = r['status'] + ':' + msg[:80]
            bad.setdefault(key, []).append((name, p, msg))
    for key, lst in bad.items():
        name, p, msg = min(lst, key=lambda x: os.path.getsize(x[1]))
        d = os.path.join(common.VERIF, 'evidence', 'replay')
        os.makedirs(d, exist_ok=True)
        keep = os.path.join(d, 'C07_' + hashlib.sha1(key.encode()).hexdigest()[:10] + '.kiki')
        with open(p, 'rb') as f, open(keep, 'wb') as g:
            g.write(f.read())
        R.violation('native:' + key, 'generate %s on %d input(s), smallest %s: %s' % (key.split(':')[0], len(lst), name, msg[:200]),
                    {'input_file': keep, 'native': True})
    return {'concrete_witnesses': {'native_generate_runs': len(files), 'by_outcome': counts,
                                   'note': 'NOT solver-decided: real generate under catch_unwind + 20 s watchdog in child processes; '
                                           'hand-written hostile inputs, repo examples and should_fail files, grammar corpus, %d seeded mutations' % nmut}}


def run_c07(tier):
    import threading
    import traceback
    import checks_model
    R = Result('C07', tier, 'model_checking')
    stats = {'harnesses': 0, 'passed': 0, 'twins': 0, 'cbmc_checks': 0, 'covers': 0, 'solver_s': 0.0}
    samples = []
    box = {}

    def guard(name, fn):
        def run():
            try:
                box[name] = fn()
            except Exception:
                box[name + '_err'] = traceback.format_exc()
        t = threading.Thread(target=run)
        t.start()
        return t

    def units():
        u = os.path.join(common.VERIF, 'harness', 'kani_units')
        specs = [{'name': 'span::' + n, 'cost': 5, 'timeout': 600, 'expect': 'fail' if 'must_fail' in n else 'pass'} for n in SPAN]
        specs += [{'name': n, 'cost': c, 'timeout': 900 if tier == 'quick' else 3600, 'mem_gb': 24}
                  for n, t, c in checks_tok.UNITS_DOLLAR if t == 'quick' or tier == 'thorough']
        return kani_runner.run_many(specs, 'units', u, jobs=6)

    def e2():
        A, g = checks_model.parser_rs_artefact()
        wd = common.workdir('e2_C07')
        return checks_model.e2_over([A], lambda A: list(range(0, (6 if tier == 'quick' else 9) + 1)), R, 'C07', tier, wd)
    common.build_kgen()
    ths = [guard('tok', lambda: checks_tok.run_tok_harnesses('C07', tier)), guard('units', units), guard('e2', e2),
           guard('native', lambda: native_leg(R, tier))]
    for t in ths:
        t.join()
    for k in ('tok', 'units', 'e2', 'native'):
        if k + '_err' in box:
            R.inconclusive.append('%s leg crashed: %s' % (k, box[k + '_err'][-600:]))
    if 'tok' in box:
        checks_tok.fold('C07', tier, R, box['tok'], stats, samples, 'tokenizer')
    if 'units' in box:
        checks_tok.fold('C07', tier, R, box['units'], stats, samples, 'unit')
    cov = {}
    if 'e2' in box:
        cov['E2_front_end_parser_model'] = box['e2'][0]
    if 'native' in box:
        cov.update(box['native'])
    R.coverage.update({
        'states': max(1, stats['cbmc_checks']), 'transitions': max(1, stats['cbmc_checks']),
        'traces_validated_against_impl': stats['covers'],
        'samples': samples,
        'explanation': 'SAT-based bounded model checking; states/transitions = CBMC properties (every Rust panic site, slice / index / '
                       'arithmetic check, unwrap) discharged over all harnesses; traces_validated = cover witnesses',
        'kani': stats,
        'functions_encoded': checks_tok.FUNCS + ['DollarlessTerminalName::remove_dollars', 'unexpected_token_or_eof_to_kiki_err, Token::start, Token::content_len',
                                                 'parser.rs tables + driver model (E2): no unwrap failure, halts'],
        'bounds': checks_tok.BOUNDS + '; parser model: all token-kind sequences of length <= %d' % (6 if tier == 'quick' else 9),
        'stubs': checks_tok.STUBS,
        'not_solver_decided': 'cst_to_ast, validate_ast, first sets, automaton construction, table fill, emission (HashMap / format!-based): '
                              'totality there is outside the solver claim; see concrete_witnesses',
        'trusted_base': ['Kani 0.68 / CBMC 6.11', 'E2 extractor and driver text check'],
        'exhaustive': False,
    })
    R.coverage.update(cov)
    R.assumptions += ['tokenizer totality is by induction over single steps from states satisfying the stated invariant',
                      'inputs beyond the stated windows / lengths are outside the claim']
    return R.finish()


def replay(path):
    obj = json.load(open(path))
    rp = obj['replay']
    if rp.get('native'):
        r = common.kgen_one('gen', rp['input_file'])
        print(json.dumps({k: r.get(k) for k in ('status', 'msg', 'output')}))
        return 1 if r['status'] in ('panic', 'abort', 'hang') else 0
    return checks_tok.replay('C07', path)
