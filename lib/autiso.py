"""Engine E4: automaton isomorphism decided by an SMT solver.

Two finite automata over the same symbol alphabet (kiki's artefact A and the
reference B) are isomorphic on reachable states iff there is a bijection pi with
pi(startA)=startB that is a simulation in both directions.  The candidate pi, a
BFS rank and a predecessor witness are *hints* computed natively (untrusted); the
solver decides, over symbolic state / symbol bit-vectors, that

  Q_step : no (p, x) with p < nA, x < nsym violates cell-compatibility under pi
  Q_inj  : no p1 != p2 with pi(p1) = pi(p2)           (with nA == nB: bijection)
  Q_reach: no non-start s whose predecessor witness is not a real edge into s
           from a state of strictly smaller rank          (all states reachable)
  Q_start: pi(startA) = startB
  Q_lab  : no p whose state label differs from the label of pi(p)   (optional)

All unsat  =>  isomorphic, for paths of any length (inductive certificate).
If the native BFS cannot build the hints it has met a difference; then the solver
is asked the bounded question "is there a symbol path of length <= L after which
the two automata disagree" (sat expected) and its model is replayed natively.
"""
from __future__ import annotations
from collections import deque
from smt import Solver, bv, SolverError

TAG_ERR, TAG_GO, TAG_RED, TAG_ACC, TAG_CONFLICT = 0, 1, 2, 3, 4


class TA:
    """Table automaton: cells[s][x] = (tag, payload); optional labels[s] = int (bitset)."""

    def __init__(self, nstates, nsym, start, cells, labels=None, label_width=0, symnames=None):
        self.n, self.nsym, self.start, self.cells = nstates, nsym, start, cells
        self.labels, self.label_width = labels, label_width
        self.symnames = symnames or [str(i) for i in range(nsym)]


def ta_from_tables(action, goto, start, symnames=None):
    """action[s][q] in ('s',j)|('r',k)|('acc',)|('err',)|('conflict',..); goto[s][a] = j|None."""
    cells = []
    for s in range(len(action)):
        row = []
        for a in action[s]:
            if a[0] == 's':
                row.append((TAG_GO, a[1]))
            elif a[0] == 'r':
                row.append((TAG_RED, a[1]))
            elif a[0] == 'acc':
                row.append((TAG_ACC, 0))
            elif a[0] == 'err':
                row.append((TAG_ERR, 0))
            else:
                row.append((TAG_CONFLICT, 0))
        for g in goto[s]:
            row.append((TAG_ERR, 0) if g is None else (TAG_GO, g))
        cells.append(row)
    return TA(len(action), len(cells[0]) if cells else 0, start, cells, symnames=symnames)


def bits(n):
    b = 1
    while (1 << b) <= n:
        b += 1
    return b


def bfs_hints(A: TA, B: TA):
    """Returns (pi, rank, pred, mismatch).  mismatch = (path, sym, cellA, cellB) or None."""
    pi = {A.start: B.start}
    rank = {A.start: 0}
    pred = {}
    path = {A.start: []}
    q = deque([A.start])
    while q:
        p = q.popleft()
        qb = pi[p]
        if A.labels is not None and A.labels[p] != B.labels[qb]:
            return pi, rank, pred, (path[p], None, ('label', A.labels[p]), ('label', B.labels[qb]))
        for x in range(A.nsym):
            ca, cb = A.cells[p][x], B.cells[qb][x]
            if ca[0] != cb[0] or (ca[0] == TAG_RED and ca[1] != cb[1]):
                return pi, rank, pred, (path[p], x, ca, cb)
            if ca[0] == TAG_GO:
                t = ca[1]
                if t not in pi:
                    pi[t] = cb[1]; rank[t] = rank[p] + 1; pred[t] = (p, x); path[t] = path[p] + [x]
                    q.append(t)
                elif pi[t] != cb[1]:
                    return pi, rank, pred, (path[p] + [x], None, ('state', t, 'already mapped to', pi[t], path[t]), ('state', cb[1]))
    return pi, rank, pred, None


def _define_tables(S: Solver, name, M: TA, ws, wx, wp):
    for s in range(M.n):
        tag = bv(0, 3)
        pay = bv(0, wp)
        for x in reversed(range(M.nsym)):
            t, p = M.cells[s][x]
            if t != 0:
                tag = '(ite (= x %s) %s %s)' % (bv(x, wx), bv(t, 3), tag)
            if p != 0:
                pay = '(ite (= x %s) %s %s)' % (bv(x, wx), bv(p, wp), pay)
        S.define('(define-fun tag%s_%d ((x (_ BitVec %d))) (_ BitVec 3) %s)' % (name, s, wx, tag))
        S.define('(define-fun pay%s_%d ((x (_ BitVec %d))) (_ BitVec %d) %s)' % (name, s, wx, wp, pay))
    tag = bv(0, 3)
    pay = bv(0, wp)
    for s in reversed(range(M.n)):
        tag = '(ite (= s %s) (tag%s_%d x) %s)' % (bv(s, ws), name, s, tag)
        pay = '(ite (= s %s) (pay%s_%d x) %s)' % (bv(s, ws), name, s, pay)
    S.define('(define-fun tag%s ((s (_ BitVec %d)) (x (_ BitVec %d))) (_ BitVec 3) %s)' % (name, ws, wx, tag))
    S.define('(define-fun pay%s ((s (_ BitVec %d)) (x (_ BitVec %d))) (_ BitVec %d) %s)' % (name, ws, wx, wp, pay))
    if M.labels is not None:
        lab = bv(0, M.label_width)
        for s in reversed(range(M.n)):
            lab = '(ite (= s %s) %s %s)' % (bv(s, ws), bv(M.labels[s], M.label_width), lab)
        S.define('(define-fun lab%s ((s (_ BitVec %d))) (_ BitVec %d) %s)' % (name, ws, M.label_width, lab))


def _define_map(S, name, mapping, n, ws, wout, default):
    e = bv(default, wout)
    for s in reversed(range(n)):
        if s in mapping:
            e = '(ite (= s %s) %s %s)' % (bv(s, ws), bv(mapping[s], wout), e)
    S.define('(define-fun %s ((s (_ BitVec %d))) (_ BitVec %d) %s)' % (name, ws, wout, e))


class IsoOutcome:
    def __init__(self):
        self.iso = None            # True / False / None (inconclusive)
        self.queries = []          # (name, result, seconds)
        self.counterexample = None  # dict
        self.reason = ''
        self.solver_time = 0.0


def decide_iso(A: TA, B: TA, solver='z3', check_counts=True) -> IsoOutcome:
    out = IsoOutcome()
    if A.nsym != B.nsym:
        out.iso = False
        out.reason = 'alphabet sizes differ: %d vs %d' % (A.nsym, B.nsym)
        out.counterexample = {'kind': 'alphabet'}
        return out
    nmax = max(A.n, B.n)
    ws = bits(nmax + 1)
    wx = bits(A.nsym + 1)
    maxpay = max([c[1] for M in (A, B) for row in M.cells for c in row] + [nmax])
    wp = max(bits(maxpay + 1), ws)
    pi, rank, pred, mismatch = bfs_hints(A, B)
    S = Solver(solver, 'QF_BV')
    try:
        _define_tables(S, 'A', A, ws, wx, wp)
        _define_tables(S, 'B', B, ws, wx, wp)

        def q(name, asserts, model_of=()):
            import time
            t0 = time.time()
            r, m = S.check(asserts, model_of)
            out.queries.append((name, r, round(time.time() - t0, 4)))
            return r, m

        S.define('(declare-const p (_ BitVec %d))' % ws)
        S.define('(declare-const p2 (_ BitVec %d))' % ws)
        S.define('(declare-const x (_ BitVec %d))' % wx)

        if mismatch is None and len(pi) == A.n:
            # ---------- certificate route
            NOSTATE = (1 << ws) - 1
            _define_map(S, 'pi', pi, A.n, ws, ws, NOSTATE)
            _define_map(S, 'rank', rank, A.n, ws, ws, NOSTATE)
            _define_map(S, 'predS', {s: v[0] for s, v in pred.items()}, A.n, ws, ws, NOSTATE)
            _define_map(S, 'predX', {s: v[1] for s, v in pred.items()}, A.n, ws, wx, 0)
            zext = '((_ zero_extend %d) %%s)' % (wp - ws) if wp > ws else '%s'
            match = ('(and (= (tagA p x) (tagB (pi p) x)) '
                     '(=> (= (tagA p x) %s) (= %s (payB (pi p) x))) '
                     '(=> (= (tagA p x) %s) (= (payA p x) (payB (pi p) x))))'
                     % (bv(TAG_GO, 3), zext % '(pi ((_ extract %d 0) (payA p x)))' % (ws - 1), bv(TAG_RED, 3)))
            r1, m1 = q('Q_step', ['(bvult p %s)' % bv(A.n, ws), '(bvult x %s)' % bv(A.nsym, wx), '(not %s)' % match], ('p', 'x'))
            r2, m2 = q('Q_inj', ['(bvult p %s)' % bv(A.n, ws), '(bvult p2 %s)' % bv(A.n, ws), '(distinct p p2)', '(= (pi p) (pi p2))'], ('p', 'p2'))
            r3, m3 = q('Q_reach', ['(bvult p %s)' % bv(A.n, ws), '(distinct p %s)' % bv(A.start, ws),
                                  '(not (and (bvult (predS p) %s) (= (tagA (predS p) (predX p)) %s) '
                                  '(= ((_ extract %d 0) (payA (predS p) (predX p))) p) (bvult (rank (predS p)) (rank p))))'
                                  % (bv(A.n, ws), bv(TAG_GO, 3), ws - 1)], ('p',))
            r4, m4 = q('Q_start', ['(not (= (pi %s) %s))' % (bv(A.start, ws), bv(B.start, ws))])
            r5 = 'unsat'
            if A.labels is not None:
                r5, m5 = q('Q_lab', ['(bvult p %s)' % bv(A.n, ws), '(distinct (labA p) (labB (pi p)))'], ('p',))
            r6, m6 = q('Q_range', ['(bvult p %s)' % bv(A.n, ws), '(not (bvult (pi p) %s))' % bv(B.n, ws)], ('p',))
            res = [r1, r2, r3, r4, r5, r6]
            if all(r == 'unsat' for r in res):
                if check_counts and A.n != B.n:
                    out.iso = False
                    out.reason = 'all reachable states correspond but state counts differ: %d vs %d' % (A.n, B.n)
                    out.counterexample = {'kind': 'count', 'nA': A.n, 'nB': B.n}
                else:
                    out.iso = True
            elif 'unknown' in res:
                out.iso = None
                out.reason = 'solver returned unknown'
            else:
                out.iso = None
                out.reason = 'certificate rejected by solver (hint construction bug?): %s' % res
        else:
            # ---------- refutation route: bounded symbolic path search
            if mismatch is not None and mismatch[2][0] == 'state':
                # one artefact state reached by two paths that lead to two different reference states
                p1, p2 = mismatch[2][4], mismatch[0]
                fork = _bounded_fork(S, A, B, ws, wx, wp, len(p1), len(p2), q)
                if fork is None:
                    out.iso = None
                    out.reason = 'native BFS found a fork the solver does not confirm'
                else:
                    okf, why = replay_fork(A, B, fork['path1'], fork['path2'])
                    if okf:
                        out.iso = False
                        out.counterexample = fork
                        out.reason = why
                    else:
                        out.iso = None
                        out.reason = 'solver fork counterexample does not replay natively: ' + why
            elif mismatch is not None:
                L = len(mismatch[0])
                cex = _bounded_difference(S, A, B, ws, wx, wp, L, q)
                if cex is None:
                    out.iso = None
                    out.reason = 'native BFS found a difference the solver does not confirm'
                else:
                    ok, why = replay_path(A, B, cex['path'], cex.get('sym'))
                    if ok:
                        out.iso = False
                        out.counterexample = cex
                        out.reason = why
                    else:
                        out.iso = None
                        out.reason = 'solver counterexample does not replay natively: ' + why
            else:
                # some A state not reached: ask the solver whether it is reachable within n steps
                missing = [s for s in range(A.n) if s not in pi]
                s0 = missing[0]
                reach = _bounded_reach(S, A, ws, wx, wp, s0, A.n, q)
                if reach is False:
                    out.iso = False
                    out.reason = 'state %d of the artefact is unreachable from its start state (no path of length <= %d)' % (s0, A.n)
                    out.counterexample = {'kind': 'unreachable', 'state': s0}
                else:
                    out.iso = None
                    out.reason = 'BFS and solver disagree on reachability of state %d' % s0
    except SolverError as ex:
        out.iso = None
        out.reason = 'solver error: %s' % ex
    finally:
        out.solver_time = S.time
        S.close()
    return out


def _bounded_difference(S, A, B, ws, wx, wp, L, q):
    """exists k <= L and symbols x_1..x_k, y: both automata can follow x_1..x_k by go-edges and
    then disagree at y (different tag, or reduce by different rule) or at a label."""
    decl = []
    for i in range(L + 1):
        S.define('(declare-const a%d (_ BitVec %d))' % (i, ws))
        S.define('(declare-const b%d (_ BitVec %d))' % (i, ws))
        S.define('(declare-const x%d (_ BitVec %d))' % (i, wx))
    asserts = ['(= a0 %s)' % bv(A.start, ws), '(= b0 %s)' % bv(B.start, ws)]
    for i in range(L):
        asserts.append('(bvult x%d %s)' % (i, bv(A.nsym, wx)))
        asserts.append('(= (tagA a%d x%d) %s)' % (i, i, bv(TAG_GO, 3)))
        asserts.append('(= (tagB b%d x%d) %s)' % (i, i, bv(TAG_GO, 3)))
        asserts.append('(= a%d ((_ extract %d 0) (payA a%d x%d)))' % (i + 1, ws - 1, i, i))
        asserts.append('(= b%d ((_ extract %d 0) (payB b%d x%d)))' % (i + 1, ws - 1, i, i))
    asserts.append('(bvult x%d %s)' % (L, bv(A.nsym, wx)))
    diff = ('(or (distinct (tagA a{L} x{L}) (tagB b{L} x{L})) '
            '(and (= (tagA a{L} x{L}) {red}) (distinct (payA a{L} x{L}) (payB b{L} x{L}))))').format(L=L, red=bv(TAG_RED, 3))
    if A.labels is not None:
        diff = '(or %s (distinct (labA a%d) (labB b%d)))' % (diff, L, L)
    asserts.append(diff)
    names = ['x%d' % i for i in range(L + 1)] + ['a%d' % L, 'b%d' % L]
    r, m = q('Q_diff_len%d' % L, asserts, names)
    if r != 'sat':
        return None
    return {'kind': 'difference', 'path': [m['x%d' % i] for i in range(L)], 'sym': m['x%d' % L],
            'stateA': m['a%d' % L], 'stateB': m['b%d' % L]}


def _bounded_fork(S, A, B, ws, wx, wp, L1, L2, q):
    """exists paths u (|u| = L1) and v (|v| = L2), followable in both automata, that end in the SAME
    artefact state but in DIFFERENT reference states."""
    asserts = []
    names = []
    for tag, L in (('u', L1), ('v', L2)):
        for i in range(L + 1):
            S.define('(declare-const f%sa%d (_ BitVec %d))' % (tag, i, ws))
            S.define('(declare-const f%sb%d (_ BitVec %d))' % (tag, i, ws))
            S.define('(declare-const f%sx%d (_ BitVec %d))' % (tag, i, wx))
        asserts += ['(= f%sa0 %s)' % (tag, bv(A.start, ws)), '(= f%sb0 %s)' % (tag, bv(B.start, ws))]
        for i in range(L):
            asserts.append('(bvult f%sx%d %s)' % (tag, i, bv(A.nsym, wx)))
            asserts.append('(= (tagA f%sa%d f%sx%d) %s)' % (tag, i, tag, i, bv(TAG_GO, 3)))
            asserts.append('(= (tagB f%sb%d f%sx%d) %s)' % (tag, i, tag, i, bv(TAG_GO, 3)))
            asserts.append('(= f%sa%d ((_ extract %d 0) (payA f%sa%d f%sx%d)))' % (tag, i + 1, ws - 1, tag, i, tag, i))
            asserts.append('(= f%sb%d ((_ extract %d 0) (payB f%sb%d f%sx%d)))' % (tag, i + 1, ws - 1, tag, i, tag, i))
            names.append('f%sx%d' % (tag, i))
    asserts.append('(= fua%d fva%d)' % (L1, L2))
    asserts.append('(distinct fub%d fvb%d)' % (L1, L2))
    r, m = q('Q_fork_%d_%d' % (L1, L2), asserts, names)
    if r != 'sat':
        return None
    return {'kind': 'fork', 'path1': [m['fux%d' % i] for i in range(L1)], 'path2': [m['fvx%d' % i] for i in range(L2)]}


def replay_fork(A: TA, B: TA, p1, p2):
    ends = []
    for path in (p1, p2):
        a, b = A.start, B.start
        for x in path:
            ca, cb = A.cells[a][x], B.cells[b][x]
            if ca[0] != TAG_GO or cb[0] != TAG_GO:
                return False, 'path not followable'
            a, b = ca[1], cb[1]
        ends.append((a, b))
    n1 = ' '.join(A.symnames[x] for x in p1) or '<empty>'
    n2 = ' '.join(A.symnames[x] for x in p2) or '<empty>'
    if ends[0][0] == ends[1][0] and ends[0][1] != ends[1][1]:
        return True, ('paths [%s] and [%s] end in the same artefact state %d but in two different reference LALR(1) states %d and %d '
                      '(two LR(0) cores share one state)' % (n1, n2, ends[0][0], ends[0][1], ends[1][1]))
    return False, 'ends %r' % (ends,)


def _bounded_reach(S, A, ws, wx, wp, target, L, q):
    for i in range(L + 1):
        S.define('(declare-const ra%d (_ BitVec %d))' % (i, ws))
        S.define('(declare-const rx%d (_ BitVec %d))' % (i, wx))
    asserts = ['(= ra0 %s)' % bv(A.start, ws)]
    hit = ['(= ra0 %s)' % bv(target, ws)]
    for i in range(L):
        asserts.append('(bvult rx%d %s)' % (i, bv(A.nsym, wx)))
        # stuttering allowed: either a real go-edge or stay
        asserts.append('(or (= ra%d ra%d) (and (= (tagA ra%d rx%d) %s) (= ra%d ((_ extract %d 0) (payA ra%d rx%d)))))'
                       % (i + 1, i, i, i, bv(TAG_GO, 3), i + 1, ws - 1, i, i))
    asserts.append('(= ra%d %s)' % (L, bv(target, ws)))
    r, m = q('Q_reach_state%d_len%d' % (target, L), asserts)
    if r == 'sat':
        return True
    if r == 'unsat':
        return False
    return None


def replay_path(A: TA, B: TA, path, sym):
    """Native replay of a solver counterexample on both tables."""
    a, b = A.start, B.start
    for x in path:
        ca, cb = A.cells[a][x], B.cells[b][x]
        if ca[0] != TAG_GO or cb[0] != TAG_GO:
            return False, 'path not followable at symbol %s' % A.symnames[x]
        a, b = ca[1], cb[1]
    names = ' '.join(A.symnames[x] for x in path) or '<empty>'
    if A.labels is not None and A.labels[a] != B.labels[b]:
        return True, 'after path [%s]: state labels (item sets) differ: artefact state %d vs reference state %d' % (names, a, b)
    if sym is None:
        return False, 'no differing symbol'
    ca, cb = A.cells[a][sym], B.cells[b][sym]
    if ca[0] != cb[0] or (ca[0] == TAG_RED and ca[1] != cb[1]):
        return True, ('after path [%s], on %s: artefact state %d has %s, reference LALR(1) state %d has %s'
                      % (names, A.symnames[sym], a, cell_str(ca), b, cell_str(cb)))
    return False, 'cells agree'


def cell_str(c):
    return {TAG_ERR: 'error', TAG_GO: 'shift/goto %d' % c[1], TAG_RED: 'reduce r%d' % c[1], TAG_ACC: 'accept',
            TAG_CONFLICT: 'conflict'}[c[0]]
