"""Engine E2: heap-free C model of (extracted tables + fixed driver loop) next to a
reference recogniser for the declared grammar, decided by CBMC for ALL token-kind
strings of a given length.

The model is regenerated from the current emitted text on every run.  All loops have
concrete bounds, so CBMC needs no --unwind; "halts within K steps" is itself an assertion.
"""
from __future__ import annotations
from lrref import CFG


def c_array(name, ctype, rows):
    if rows and isinstance(rows[0], (list, tuple)):
        w = max(len(r) for r in rows)
        body = ',\n'.join('  {' + ','.join(str(x) for x in list(r) + [0] * (w - len(r))) + '}' for r in rows)
        return 'static const %s %s[%d][%d] = {\n%s\n};\n' % (ctype, name, len(rows), max(w, 1), body)
    return 'static const %s %s[%d] = {%s};\n' % (ctype, name, max(len(rows), 1), ','.join(str(x) for x in rows) or '0')


def same_span_passes(cfg: CFG):
    """Passes per span length so that same-span dependencies settle: an entry for (A, i, j) may
    depend on (B, i, j) when A -> alpha B beta with alpha nullable (left-corner relation; for FULL
    beta must be nullable too).  Information crosses at least one edge per pass, so the number of
    edges on the longest simple path (+1) suffices."""
    dep = {a: set() for a in range(cfg.NT)}
    for l, rhs in cfg.rules:
        for i, s in enumerate(rhs):
            if not cfg.is_t(s) and cfg.nt_of(s) != l:
                dep[l].add(cfg.nt_of(s))
            if cfg.is_t(s) or not cfg.nullable[cfg.nt_of(s)]:
                break
    best = [0]
    budget = [200000]

    def dfs(a, seen, d):
        budget[0] -= 1
        if budget[0] < 0:
            return
        best[0] = max(best[0], d)
        for b in dep[a]:
            if b not in seen:
                seen.add(b)
                dfs(b, seen, d + 1)
                seen.discard(b)
    for a in range(cfg.NT):
        dfs(a, {a}, 0)
    if budget[0] < 0:
        return cfg.NT + 1
    return best[0] + 1


def build_c(e, cfg: CFG, N: int, K: int, D: int, fixed=None, expect=None, check_errpos=True, lr1_ref=None):
    """e: extract.Emitted; returns C text.  fixed: optional concrete kind string (model validation);
    expect: (result, errpos) expected for the fixed string."""
    NQ, NN, NS, NR = len(e.qkinds), len(e.nkinds), e.nstates, e.nrules
    EOFQ = NQ - 1
    tag = [[{'err': 0, 's': 1, 'r': 2, 'acc': 3}[a[0]] for a in row] for row in e.action]
    arg = [[(a[1] if len(a) > 1 else 0) for a in row] for row in e.action]
    goto = [[(-1 if x is None else x) for x in row] for row in e.goto]
    maxrhs = max([len(d['pops']) for d in e.reduces] + [1])
    r_len = [d['truncate'] for d in e.reduces]
    r_pops = [len(d['pops']) for d in e.reduces]
    r_lhs = [d['lhs'] for d in e.reduces]
    r_pop = []
    for d in e.reduces:
        row = []
        for kind, idx, var in d['pops']:
            row.append(255 if kind == '_' else (idx if kind == 'N' else NN + idx))
        r_pop.append(row + [255] * (maxrhs - len(row)))
    # grammar for the reference recogniser
    syms = []       # flattened rhs symbols
    r_start = []
    for l, rhs in cfg.rules:
        r_start.append(len(syms))
        for s in rhs:
            syms.append(s if cfg.is_t(s) else 100 + cfg.nt_of(s))     # terminals < 100, nonterminal a -> 100+a
    r_start.append(len(syms))
    g_lhs = [l for l, _ in cfg.rules]
    passes = 1
    prod = [1 if p else 0 for p in cfg.productive]
    rule_ok = [1 if (cfg.productive[l] and all(cfg.is_t(s) or cfg.productive[cfg.nt_of(s)] for s in rhs)) else 0 for l, rhs in cfg.rules]
    all_productive = all(cfg.productive)
    start_nt = cfg.start
    if e.nkinds[start_nt] != e.start_type:
        raise ValueError('start type mismatch')

    out = []
    out.append('#include <stdint.h>\n')
    out.append('#define N %d\n#define K %d\n#define D %d\n#define NQ %d\n#define NN %d\n#define NS %d\n#define NR %d\n#define EOFQ %d\n'
               '#define MAXRHS %d\n#define NSYM %d\n#define PASSES %d\n#define START_STATE %d\n#define START_NT %d\n'
               % (N, K, D, NQ, NN, NS, max(NR, 1), EOFQ, maxrhs, max(len(syms), 1), passes, e.start_state, start_nt))
    out.append(c_array('ACT_TAG', 'uint8_t', tag))
    out.append(c_array('ACT_ARG', 'uint8_t', arg))
    out.append(c_array('GOTO', 'int16_t', goto if NN else [[0]] * NS))
    out.append(c_array('R_TRUNC', 'uint8_t', r_len))
    out.append(c_array('R_NPOPS', 'uint8_t', r_pops))
    out.append(c_array('R_LHS', 'uint8_t', r_lhs))
    out.append(c_array('R_POP', 'uint8_t', r_pop if r_pop else [[255]]))
    import e2ref
    C, acc_id, pre_ids = e2ref.build_reference(cfg, N)
    ref_c, nm, ref_nodes = C.emit_c([acc_id] + pre_ids)
    out.append(r'''
uint8_t nondet_u8(void);
uint8_t kind[N + 1];

int main(void) {
''')
    for i in range(N):
        out.append('  uint8_t k%d = nondet_u8(); __CPROVER_assume(k%d < EOFQ); kind[%d] = k%d;\n' % (i, i, i, i))
    out.append('  kind[N] = EOFQ;\n')
    if fixed is not None:
        for i, k in enumerate(fixed):
            out.append('  __CPROVER_assume(k%d == %d);\n' % (i, k))
    out.append(r'''
  /* ---------- the emitted driver loop over the extracted tables ---------- */
  uint8_t st[D]; uint8_t nk[D];
  int sp = 0, np = 0, pos = 0, result = 0, errpos = -1;
  st[sp++] = START_STATE;
  for (int step = 0; step < K; step++) {
    if (result != 0) continue;
    uint8_t q = kind[pos];                       /* peek: token kind or EOF */
    __CPROVER_assert(sp >= 1, "E2 states.last().unwrap() on empty state stack");
    uint8_t top = st[sp - 1];
    uint8_t tag = ACT_TAG[top][q], arg = ACT_ARG[top][q];
    if (tag == 1) {                              /* Shift */
      __CPROVER_assert(pos < N, "E2 shift of the Eof quasi-terminal (try_into_terminal().unwrap() fails)");
      __CPROVER_assert(sp < D && np < D, "VERIF-BOUND model stack depth");
      st[sp++] = arg; nk[np++] = NN + q; pos++;
    } else if (tag == 2) {                       /* Reduce */
      for (int j = 0; j < MAXRHS; j++) if (j < R_NPOPS[arg]) {
        __CPROVER_assert(np >= 1, "E2 nodes.pop().unwrap() on empty node stack");
        uint8_t k = nk[--np];
        __CPROVER_assert(R_POP[arg][j] == 255 || R_POP[arg][j] == k, "E2 reduce extracts a node of another kind (.ok().unwrap() fails)");
      }
      __CPROVER_assert(sp >= R_TRUNC[arg], "E2 states.len() - k underflows");
      sp -= R_TRUNC[arg];
      __CPROVER_assert(np < D, "VERIF-BOUND model stack depth");
      nk[np++] = R_LHS[arg];
      __CPROVER_assert(sp >= 1, "E2 states.last().unwrap() on empty state stack after reduce");
      int16_t g = GOTO[st[sp - 1]][R_LHS[arg]];
      if (g < 0) { result = 2; errpos = pos; }
      else { __CPROVER_assert(sp < D, "VERIF-BOUND model stack depth"); st[sp++] = (uint8_t)g; }
    } else if (tag == 3) {                       /* Accept */
      __CPROVER_assert(np >= 1, "E2 nodes.pop().unwrap() on accept with empty node stack");
      uint8_t k = nk[--np];
      __CPROVER_assert(k == START_NT, "E2 accept with a node that is not the start type");
      result = 1;
    } else { result = 2; errpos = pos; }
  }
  __CPROVER_assert(result != 0, "E2 parse does not return within K driver iterations");

  /* ---------- reference recogniser (circuit generated natively from the declared grammar) ---------- */
''')
    out.append(ref_c + '\n')
    out.append('  _Bool ref_accept = %s;\n  int ref_err = N;\n' % nm(acc_id))
    for j in range(N, 0, -1):
        out.append('  if (!%s) ref_err = %d;\n' % (nm(pre_ids[j]), j - 1))
    out.append(r'''
  if (result == 1) __CPROVER_assert(ref_accept, "C01 accepted a non-sentence");
  if (result == 2) __CPROVER_assert(!ref_accept, "C01 rejected a sentence");
''')
    if check_errpos and all_productive:
        out.append('  if (result == 2) __CPROVER_assert(errpos == ref_err, "C03 error reported at a token other than the first offending one (or Err(None) mismatch)");\n')
    elif check_errpos and lr1_ref is not None:
        # grammars with unproductive nonterminals: the reference index is where a canonical LR(1) parser stops
        ra, rg = lr1_ref
        rtag = [[{'err': 0, 's': 1, 'r': 2, 'acc': 3}[a[0]] for a in row] for row in ra]
        rarg = [[(a[1] if len(a) > 1 else 0) for a in row] for row in ra]
        rgoto = [[(-1 if x is None else x) for x in row] for row in rg]
        pre = []
        pre.append(c_array('REF_TAG', 'uint8_t', rtag))
        pre.append(c_array('REF_ARG', 'uint16_t', rarg))
        pre.append(c_array('REF_GOTO', 'int16_t', rgoto if cfg.NT else [[0]] * len(ra)))
        pre.append(c_array('REF_RLEN', 'uint8_t', [len(r[1]) for r in cfg.rules]))
        pre.append(c_array('REF_RLHS', 'uint8_t', [r[0] for r in cfg.rules]))
        out.insert(1, ''.join(pre))
        out.append(r'''
  /* reference canonical LR(1) parser over the same kind[] */
  {
    uint16_t rst[D]; int rsp = 0, rpos = 0, rres = 0, rerr = -1;
    rst[rsp++] = 0;
    for (int step = 0; step < 2 * K; step++) {
      if (rres != 0) continue;
      uint8_t q = kind[rpos];
      uint16_t top = rst[rsp - 1];
      uint8_t tag = REF_TAG[top][q]; uint16_t arg = REF_ARG[top][q];
      if (tag == 1) { __CPROVER_assert(rsp < D, "VERIF-BOUND model stack depth"); rst[rsp++] = arg; rpos++; }
      else if (tag == 2) {
        rsp -= REF_RLEN[arg];
        int16_t g = REF_GOTO[rst[rsp - 1]][REF_RLHS[arg]];
        if (g < 0) { rres = 2; rerr = rpos; } else { __CPROVER_assert(rsp < D, "VERIF-BOUND model stack depth"); rst[rsp++] = (uint16_t)g; }
      } else if (tag == 3) { rres = 1; }
      else { rres = 2; rerr = rpos; }
    }
    __CPROVER_assert(rres != 0, "VERIF-BOUND reference LR(1) parser does not return within 2K iterations");
    if (result == 2 && rres == 2) __CPROVER_assert(errpos == rerr, "C03 error reported at another token than a canonical LR(1) parser of the grammar reports (or Err(None) mismatch)");
  }
''')
    if expect is not None:
        out.append('  __CPROVER_assert(result == %d, "MODEL-VALIDATION result differs from the native run");\n' % expect[0])
        if expect[0] == 2:
            out.append('  __CPROVER_assert(errpos == %d, "MODEL-VALIDATION error position differs from the native run");\n' % expect[1])
    out.append('  __CPROVER_assert(result != 1, "EXPECTED-FAIL-WITNESS accept reachable");\n  __CPROVER_assert(!(result == 2 && errpos == N), "EXPECTED-FAIL-WITNESS err-eof reachable");\n  __CPROVER_assert(!(result == 2 && errpos < N), "EXPECTED-FAIL-WITNESS err-token reachable");\n')
    out.append('  return 0;\n}\n')
    return ''.join(out)
