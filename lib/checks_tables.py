"""C17 (emitted tables = canonical LALR(1) tables), C04 (parser emitted exactly for
LALR(1) grammars) and C11 (table-conflict error pinpoints a real conflict).

Translation validation: the real generator runs natively on every corpus grammar;
the solver (engine E4, lib/autiso.py) decides the artefact against the reference
LALR(1) automaton built by lib/lrref.py.
"""
from __future__ import annotations
import json
import os
import random
import time
from concurrent.futures import ProcessPoolExecutor

import common
from common import Result, Inconclusive, log
import corpus as corpus_mod
from grammar import read_kiki, render, Grammar, KikiSyntaxError
from lrref import CFG, canonical_lr1, lalr_from_lr1, tables
from extract import extract, ExtractError
import autiso


# ----------------------------------------------------------------------------
# corpus materialisation
# ----------------------------------------------------------------------------

def materialise(tier, props_seed, want_tiny=False, n_random=0, wd=None):
    """Returns list of dict(name, path, grammar, origin)."""
    wd = wd or common.workdir('corpus_%s' % tier)
    rng = random.Random(props_seed)
    out = []
    for name, path in corpus_mod.repo_examples(common.REPO):
        g = read_kiki(open(path, encoding='utf8').read(), name)
        out.append({'name': 'repo_' + name, 'path': path, 'grammar': g, 'origin': 'repo'})
    styles = [dict(fieldset='tuple', skip='none', single='enum'), dict(random_skip=True)]
    for si, style in enumerate(styles if tier == 'thorough' else styles[1:]):
        for name, exp, g in corpus_mod.curated(random.Random(props_seed * 7 + si), style):
            p = os.path.join(wd, 'cur%d_%s.kiki' % (si, name))
            with open(p, 'w', encoding='utf8') as f:
                f.write(render(g, nl='\r\n' if (props_seed + si) % 2 else '\n', comments=bool(si)))
            out.append({'name': 'cur%d_%s' % (si, name), 'path': p, 'grammar': g, 'origin': 'curated', 'expect': exp})
    if want_tiny:
        tiny = corpus_mod.tiny_exhaustive()
        if want_tiny is not True:
            tiny = random.Random(props_seed + 3).sample(tiny, min(want_tiny, len(tiny)))
        for name, exp, nts, rules in tiny:
            g = corpus_mod.build(name, nts, rules, dict(fieldset='tuple', skip='none', single='enum'))
            p = os.path.join(wd, name + '.kiki')
            with open(p, 'w', encoding='utf8') as f:
                f.write(render(g))
            out.append({'name': name, 'path': p, 'grammar': g, 'origin': 'tiny'})
    for name, exp, nts, rules in corpus_mod.eps_chain_family():
        g = corpus_mod.build(name, nts, rules, dict(fieldset='tuple', skip='none', single='enum'))
        p = os.path.join(wd, name + '.kiki')
        with open(p, 'w', encoding='utf8') as f:
            f.write(render(g))
        out.append({'name': name, 'path': p, 'grammar': g, 'origin': 'epsfam'})
    for i in range(n_random):
        name, exp, nts, rules = corpus_mod.random_grammar(rng, i)
        g = corpus_mod.build(name, nts, rules, dict(random_skip=True), rng)
        p = os.path.join(wd, '%s_s%d.kiki' % (name, props_seed))
        with open(p, 'w', encoding='utf8') as f:
            f.write(render(g))
        out.append({'name': '%s_s%d' % (name, props_seed), 'path': p, 'grammar': g, 'origin': 'random'})
    return out


def generate_all(items):
    res = common.kgen_many('gen', [it['path'] for it in items])
    for it, r in zip(items, res):
        it['gen'] = r
    return items


# ----------------------------------------------------------------------------
# per-grammar decision procedures (run in worker processes)
# ----------------------------------------------------------------------------

def reference(g: Grammar):
    cfg = CFG(g)
    lr1 = canonical_lr1(cfg)
    la = lalr_from_lr1(lr1)
    act, goto, conf = tables(la)
    return cfg, la, act, goto, conf


def symnames(cfg):
    return ['$' + t for t in cfg.tnames] + ['EOF'] + cfg.ntnames


def check_reduce_descriptors(e, cfg):
    """Structural: reduce r pops |rhs(r)| nodes of the kinds of rhs(r) right-to-left,
    truncates |rhs(r)| states and returns lhs(r)."""
    problems = []
    if e.nrules != cfg.R:
        return ['emitted %d rules, grammar has %d' % (e.nrules, cfg.R)]
    for r, d in enumerate(e.reduces):
        lhs, rhs = cfg.rules[r]
        if d['lhs'] != lhs:
            problems.append('reduce r%d returns kind %s, rule lhs is %s' % (r, e.nkinds[d['lhs']], cfg.ntnames[lhs]))
        if d['truncate'] != len(rhs):
            problems.append('reduce r%d truncates %d states, |rhs| = %d' % (r, d['truncate'], len(rhs)))
        if len(d['pops']) != len(rhs):
            problems.append('reduce r%d pops %d nodes, |rhs| = %d' % (r, len(d['pops']), len(rhs)))
            continue
        for k, (kind, idx, var) in enumerate(d['pops']):
            s = rhs[len(rhs) - 1 - k]
            if kind == 'T' and not (cfg.is_t(s) and s == idx):
                problems.append('reduce r%d pop %d extracts terminal %d, rhs symbol is %s' % (r, k, idx, cfg.symname(s)))
            if kind == 'N' and not (not cfg.is_t(s) and cfg.nt_of(s) == idx):
                problems.append('reduce r%d pop %d extracts nonterminal %d, rhs symbol is %s' % (r, k, idx, cfg.symname(s)))
    return problems


def decide_ok_tables(name, path, rust, g: Grammar, solver='z3'):
    """For generate = Ok: emitted tables vs reference LALR(1).  Returns dict."""
    out = {'name': name, 'kind': 'ok', 'queries': [], 'solver_time': 0.0}
    try:
        e = extract(rust)
    except ExtractError as ex:
        out['inconclusive'] = 'extract: %s' % ex
        return out
    cfg, la, act, goto, conf = reference(g)
    out['ref_states'] = la.n()
    out['emitted_states'] = e.nstates
    out['ref_conflicts'] = len(conf)
    if e.qkinds[:-1] != cfg.tnames or e.nkinds != cfg.ntnames:
        out['violation'] = ('header', 'kind enums differ from declarations: %s / %s' % (e.qkinds, e.nkinds))
        return out
    if conf:
        s, q, acts = conf[0]
        out['violation'] = ('accepted-conflicting',
                            'generate returned Ok but the reference LALR(1) automaton has %d conflict(s), e.g. state with items %s on %s: %s'
                            % (len(conf), sorted(la.states[s].keys())[:6], cfg.symname(q), sorted(acts)))
        # still compare tables (C17) below? a conflicting reference has no canonical table
        return out
    probs = check_reduce_descriptors(e, cfg)
    if probs:
        out['violation'] = ('reduce-descriptor', '; '.join(probs[:4]))
        return out
    A = autiso.ta_from_tables(e.action, e.goto, e.start_state, symnames(cfg))
    B = autiso.ta_from_tables(act, goto, 0, symnames(cfg))
    r = autiso.decide_iso(A, B, solver)
    out['queries'] = r.queries
    out['solver_time'] = r.solver_time
    if r.iso is True:
        out['iso'] = True
    elif r.iso is False:
        out['violation'] = ('tables-differ', r.reason)
        out['cex'] = r.counterexample
    else:
        out['inconclusive'] = r.reason
    return out


def machine_to_ta(m, cfg: CFG, with_items=True):
    """kiki's Machine dump -> TA over symbols terminals+EOF(unused)+nonterminals with item-set labels."""
    tix = {n: i for i, n in enumerate(cfg.tnames)}
    nix = {n: i for i, n in enumerate(cfg.ntnames)}
    n = len(m['states'])
    nsym = cfg.T + 1 + cfg.NT
    cells = [[(autiso.TAG_ERR, 0)] * nsym for _ in range(n)]
    problems = []
    for fr, to, k, nm in m['transitions']:
        x = tix.get(nm) if k == 'T' else (cfg.T + 1 + nix[nm] if nm in nix else None)
        if x is None or not (0 <= fr < n and 0 <= to < n):
            problems.append('transition with unknown symbol or state: %r' % ([fr, to, k, nm],))
            continue
        if cells[fr][x][0] != autiso.TAG_ERR and cells[fr][x] != (autiso.TAG_GO, to):
            problems.append('nondeterministic transition from %d on %s' % (fr, nm))
        cells[fr][x] = (autiso.TAG_GO, to)
    maxdot = max([len(r[1]) for r in cfg.rules] + [1]) + 1
    width = (cfg.R + 1) * (maxdot + 1) * (cfg.T + 1)

    def item_bit(rule, dot, la):
        return ((rule * (maxdot + 1)) + dot) * (cfg.T + 1) + la
    labels = []
    for st in m['states']:
        b = 0
        for it in st:
            rule = cfg.R if it['rule'] == -1 else it['rule']
            la = cfg.T if it['la'] is None else tix.get(it['la'], None)
            if la is None or rule > cfg.R or it['dot'] > maxdot:
                problems.append('item outside the grammar: %r' % it)
                continue
            b |= 1 << item_bit(rule, it['dot'], la)
        labels.append(b)
    return autiso.TA(n, nsym, m['start'], cells, labels, width, symnames(cfg)), problems, item_bit, width


def ref_to_ta(la, cfg, item_bit, width):
    n = la.n()
    nsym = cfg.T + 1 + cfg.NT
    cells = [[(autiso.TAG_ERR, 0)] * nsym for _ in range(n)]
    labels = []
    for s in range(n):
        for sym, j in la.trans[s].items():
            cells[s][sym] = (autiso.TAG_GO, j)
        b = 0
        for (r, d), mask in la.states[s].items():
            for q in range(cfg.T + 1):
                if mask >> q & 1:
                    b |= 1 << item_bit(r, d, q)
        labels.append(b)
    return autiso.TA(n, nsym, 0, cells, labels, width, symnames(cfg))


def file_matches(fj, g: Grammar):
    """TableConflictErr.file vs the independent reader's view (plain comparison)."""
    probs = []
    if fj['start'] != g.start:
        probs.append('start %r != %r' % (fj['start'], g.start))
    if fj['term_enum'] != g.term_enum:
        probs.append('terminal enum name')
    if [tuple(t) for t in fj['terminals']] != [tuple(t) for t in g.terminals]:
        probs.append('terminal variants %r != %r' % (fj['terminals'], g.terminals))
    if fj['term_attrs'] != g.term_attrs:
        probs.append('terminal attrs')
    if len(fj['nonterminals']) != len(g.nonterminals):
        probs.append('nonterminal count')
        return probs

    def fs_eq(a, b):
        if a['kind'] != b.kind or len(a['fields']) != len(b.fields):
            return False
        for x, y in zip(a['fields'], b.fields):
            if x['used'] != y.used or x['sym'] != [y.sym.kind, y.sym.name]:
                return False
            if b.kind == 'named' and y.used and x['name'] != y.name:
                return False
        return True
    for a, b in zip(fj['nonterminals'], g.nonterminals):
        if a['kind'] != b.kind or a['name'] != b.name or a['attrs'] != b.attrs:
            probs.append('nonterminal %s header' % b.name)
            continue
        if b.kind == 'struct':
            if not fs_eq(a['fieldset'], b.fieldset):
                probs.append('struct %s fieldset' % b.name)
        else:
            if len(a['variants']) != len(b.variants) or any(
                    x['name'] != y.name or not fs_eq(x['fieldset'], y.fieldset) for x, y in zip(a['variants'], b.variants)):
                probs.append('enum %s variants' % b.name)
    return probs


def item_actions(cfg: CFG, la_aut_trans_of_state, it):
    """The parser actions an item demands: set of (lookahead q, action descriptor)."""
    rule = cfg.R if it['rule'] == -1 else it['rule']
    rhs = cfg.rhs(rule)
    tix = {n: i for i, n in enumerate(cfg.tnames)}
    la = cfg.T if it['la'] is None else tix[it['la']]
    if it['dot'] < len(rhs):
        s = rhs[it['dot']]
        if cfg.is_t(s):
            return {(s, ('shift',))}
        return set()
    if rule == cfg.R:
        return {(la, ('accept',))}
    return {(la, ('reduce', rule))}


def decide_conflict(name, path, err, g: Grammar, solver='z3'):
    """For generate = TableConflict: C11's obligations.  Returns dict."""
    out = {'name': name, 'kind': 'conflict', 'queries': [], 'solver_time': 0.0}
    cfg, la, act, goto, conf = reference(g)
    out['ref_states'] = la.n()
    out['ref_conflicts'] = len(conf)
    m = err['machine']
    out['emitted_states'] = len(m['states'])
    A, problems, item_bit, width = machine_to_ta(m, cfg)
    if problems:
        out['violation'] = ('machine-malformed', '; '.join(problems[:3]))
        return out
    B = ref_to_ta(la, cfg, item_bit, width)
    r = autiso.decide_iso(A, B, solver)
    out['queries'] = list(r.queries)
    out['solver_time'] = r.solver_time
    if r.iso is False:
        out['violation'] = ('machine-differs', 'attached automaton is not the LALR(1) automaton: ' + r.reason)
        out['cex'] = r.counterexample
        return out
    if r.iso is None:
        out['inconclusive'] = r.reason
        return out
    # Query 2: reported state / items / differing actions — decided by the solver over the
    # same encoding: membership of both items in the item-set label of the reported state.
    si = err['state_index']
    if not (0 <= si < len(m['states'])):
        out['violation'] = ('state-index', 'reported state index %d not a state of the attached automaton (%d states)' % (si, len(m['states'])))
        return out
    tix = {n: i for i, n in enumerate(cfg.tnames)}
    from smt import Solver, bv
    S = Solver(solver, 'QF_BV')
    try:
        lab = bv(A.labels[si], width)
        bitsq = []
        for it in err['items']:
            rule = cfg.R if it['rule'] == -1 else it['rule']
            lav = cfg.T if it['la'] is None else tix.get(it['la'])
            if lav is None or rule > cfg.R:
                out['violation'] = ('item-outside-grammar', repr(it))
                return out
            b = item_bit(rule, it['dot'], lav)
            bitsq.append('(= ((_ extract %d %d) %s) #b1)' % (b, b, lab))
        res, _ = S.check(['(not (and %s))' % ' '.join(bitsq)])
        out['queries'].append(('Q_items_member', res, 0.0))
        out['solver_time'] += S.time
    finally:
        S.close()
    if res != 'unsat':
        out['violation'] = ('items-not-in-state', 'reported items %r are not both members of reported state %d' % (err['items'], si))
        return out
    a0 = item_actions(cfg, None, err['items'][0])
    a1 = item_actions(cfg, None, err['items'][1])
    shared = [(q, x, y) for (q, x) in a0 for (q2, y) in a1 if q == q2 and x != y]
    if not shared:
        out['violation'] = ('no-real-conflict', 'reported items %r do not demand different actions on a common lookahead' % (err['items'],))
        return out
    if not conf:
        out['violation'] = ('spurious-conflict', 'generate reported a table conflict but the reference LALR(1) automaton is conflict-free')
        return out
    probs = file_matches(err['file'], g)
    if probs:
        out['violation'] = ('file-differs', 'attached grammar differs from the validated input: ' + '; '.join(probs[:3]))
        return out
    out['iso'] = True
    out['conflict_on'] = cfg.symname(shared[0][0])
    return out


def decide_one(args):
    name, path, gen, gtext_or_none, solver = args
    t0 = time.time()
    try:
        g = read_kiki(open(path, encoding='utf8').read(), name)
    except KikiSyntaxError as ex:
        return {'name': name, 'kind': 'unreadable', 'inconclusive': 'independent reader rejects corpus file: %s' % ex}
    st = gen['status']
    if st == 'ok':
        r = decide_ok_tables(name, path, gen['rust'], g, solver)
    elif st == 'err' and gen['err']['variant'] == 'TableConflict':
        r = decide_conflict(name, path, gen['err'], g, solver)
    elif st == 'err':
        r = {'name': name, 'kind': 'other-err', 'err': gen['err']['variant']}
    else:
        r = {'name': name, 'kind': st, 'msg': gen.get('msg') or gen.get('output')}
    r['wall'] = round(time.time() - t0, 3)
    return r


def decide_all(items, solver='z3'):
    args = [(it['name'], it['path'], it['gen'], None, solver) for it in items]
    with ProcessPoolExecutor(max_workers=common.NCPU) as ex:
        return list(ex.map(decide_one, args, chunksize=max(1, len(args) // (common.NCPU * 8))))


# ----------------------------------------------------------------------------
# the three checks
# ----------------------------------------------------------------------------

def _corpus_for(tier):
    s = common.seed()
    if tier == 'quick':
        return materialise(tier, s, want_tiny=1500, n_random=300)
    return materialise(tier, s, want_tiny=True, n_random=20000)


def _solver_diff(items, results, k=6):
    """Once per run: re-decide a few grammars with cvc5 and compare verdicts with z3."""
    diffs = []
    picked = [it for it, r in zip(items, results) if r.get('iso')][:k]
    for it in picked:
        r2 = decide_one((it['name'], it['path'], it['gen'], None, 'cvc5'))
        if not r2.get('iso'):
            diffs.append((it['name'], r2.get('inconclusive') or r2.get('violation')))
    return len(picked), diffs


def vacuity_witnesses(items, results, prop, k=5):
    """Perturb one cell / one item of k artefacts and require the solver route to report it."""
    rng = random.Random(common.seed() + 17)
    tried = detected = 0
    notes = []
    for it, r in zip(items, results):
        if tried >= k or not r.get('iso'):
            continue
        g = it['grammar']
        cfg, la, act, goto, conf = reference(g)
        if prop == 'C11':
            if r['kind'] != 'conflict':
                continue
            A, problems, item_bit, width = machine_to_ta(it['gen']['err']['machine'], cfg)
            B = ref_to_ta(la, cfg, item_bit, width)
            s = rng.randrange(A.n)
            A.labels[s] ^= 1 << rng.randrange(width)
        else:
            if r['kind'] != 'ok':
                continue
            e = extract(it['gen']['rust'])
            A = autiso.ta_from_tables(e.action, e.goto, e.start_state, symnames(cfg))
            B = autiso.ta_from_tables(act, goto, 0, symnames(cfg))
            s, x = rng.randrange(A.n), rng.randrange(cfg.T + 1)
            old = A.cells[s][x]
            A.cells[s][x] = (autiso.TAG_ERR, 0) if old[0] != autiso.TAG_ERR else (autiso.TAG_ACC, 0)
        tried += 1
        o = autiso.decide_iso(A, B)
        if o.iso is False:
            detected += 1
        else:
            notes.append('%s: perturbation not reported (%s)' % (it['name'], o.reason))
    return tried, detected, notes


def run_tables_check(prop, tier):
    level = 'translation_validation'
    R = Result(prop, tier, level)
    items = generate_all(_corpus_for(tier))
    results = decide_all(items)
    nq = sum(len(r.get('queries', [])) for r in results)
    st = sum(r.get('solver_time', 0) for r in results)
    kinds = {}
    samples = []
    programs = 0
    for it, r in zip(items, results):
        kinds[r['kind']] = kinds.get(r['kind'], 0) + 1
        gen = it['gen']
        relevant = False
        if r['kind'] in ('panic', 'abort', 'hang'):
            # not this property's business (C07) but the check cannot decide this grammar
            R.inconclusive.append('%s: generate %s on %s (%s)' % (prop, r['kind'], it['path'], (r.get('msg') or '')[:200]))
            continue
        if 'inconclusive' in r:
            R.inconclusive.append('%s: %s' % (it['name'], r['inconclusive']))
            continue
        v = r.get('violation')
        if prop == 'C17':
            relevant = r['kind'] == 'ok'
            if relevant and v and v[0] in ('tables-differ', 'reduce-descriptor', 'header'):
                R.violation('%s:%s' % (it['origin'] + '_' + _stable_name(it), v[0]), '%s: %s' % (it['name'], v[1]),
                            {'grammar_file': _keep(it), 'detail': v[1], 'cex': r.get('cex')})
        elif prop == 'C11':
            relevant = r['kind'] == 'conflict'
            if relevant and v and v[0] != 'spurious-conflict':
                R.violation('%s:%s' % (it['origin'] + '_' + _stable_name(it), v[0]), '%s: %s' % (it['name'], v[1]),
                            {'grammar_file': _keep(it), 'detail': v[1], 'cex': r.get('cex')})
        elif prop == 'C04':
            relevant = r['kind'] in ('ok', 'conflict', 'other-err')
            if r['kind'] == 'other-err':
                R.violation('%s:other-err' % (it['origin'] + '_' + _stable_name(it)),
                            '%s: well-formed corpus grammar rejected with %s' % (it['name'], r['err']),
                            {'grammar_file': _keep(it)})
            elif v and v[0] in ('accepted-conflicting', 'spurious-conflict'):
                R.violation('%s:%s' % (it['origin'] + '_' + _stable_name(it), v[0]), '%s: %s' % (it['name'], v[1]),
                            {'grammar_file': _keep(it), 'detail': v[1]})
            elif v:
                # the artefact is not the LALR(1) automaton: the Ok/conflict answer is not backed by a correct automaton
                R.violation('%s:%s' % (it['origin'] + '_' + _stable_name(it), v[0]), '%s: %s' % (it['name'], v[1]),
                            {'grammar_file': _keep(it), 'detail': v[1], 'cex': r.get('cex')})
            if 'expect' in it and r['kind'] in ('ok', 'conflict') and it['expect'] != r['kind'] and not v:
                R.inconclusive.append('%s: literature classification %s but kiki and reference both say %s' % (it['name'], it['expect'], r['kind']))
        if relevant:
            programs += 1
            if len(samples) < 8 and (r.get('iso') or v):
                samples.append({'grammar': it['name'], 'bnf': it['grammar'].bnf()[:12], 'generate': r['kind'],
                                'states': r.get('emitted_states'), 'queries': r.get('queries'), 'verdict': 'holds' if r.get('iso') else str(v)})
    vt, vd, vnotes = vacuity_witnesses(items, results, prop)
    if vt == 0 or vd != vt:
        R.inconclusive.append('vacuity guard: %d perturbed artefacts, %d reported %s' % (vt, vd, vnotes))
    ndiff, diffs = _solver_diff(items, results)
    for d in diffs:
        R.inconclusive.append('solver diff z3 vs cvc5 on %s: %s' % d)
    R.coverage.update({
        'programs': programs,
        'disagreements_checked': len(R.violations) + len(R.known_hits),
        'samples': samples,
        'corpus': {'total': len(items), 'by_generate_result': kinds,
                   'by_origin': {o: sum(1 for it in items if it['origin'] == o) for o in ('repo', 'curated', 'tiny', 'epsfam', 'random')}},
        'vacuity_witnesses': {'perturbed_artefacts': vt, 'reported_by_solver': vd},
        'solver_queries': nq,
        'solver_time_s': round(st, 2),
        'solver': 'z3 4.8.12 (QF_BV, one process per grammar); cvc5 1.0 re-decides %d grammars per run' % ndiff,
        'functions_encoded': ['emitted ACTION_TABLE / GOTO_TABLE / start state (extracted from RustSrc)',
                              'reduce_rN descriptors (pop kinds, truncate count, lhs kind)'] if prop != 'C11' else
                             ['TableConflictErr.machine (states with items, transitions, start)', 'TableConflictErr.items / state_index'],
        'bounds': 'none on path length (inductive simulation certificate checked by the solver); programs = corpus',
        'exhaustive': False,
        'trusted_base': ['lib/lrref.py reference canonical-LR(1)+merge builder', 'lib/grammar.py independent .kiki reader',
                         'lib/extract.py table extractor', 'z3', 'cvc5 (diff)'],
    })
    R.assumptions += ['programs quantifier is a corpus (repo examples, curated literature grammars, %s, seeded random), not all grammars'
                      % ('all 9638 tiny grammars (<=2 nonterminals, <=2 terminals, <=3 productions, rhs<=2)' if tier == 'thorough' else 'a seeded sample of 1500 of the 9638 tiny grammars'),
                      'hints (pi, rank, predecessor) are untrusted; only solver verdicts count']
    return R.finish()


def _stable_name(it):
    # key for known-findings: independent of seed for curated/repo/tiny, includes seed for random
    return it['name'].split('_', 1)[1] if it['origin'] == 'curated' else it['name']


def _keep(it):
    """Copy a grammar file that is part of a violation next to the evidence so replay works."""
    import shutil
    d = os.path.join(common.VERIF, 'evidence', 'replay')
    os.makedirs(d, exist_ok=True)
    dst = os.path.join(d, os.path.basename(it['path']))
    if os.path.abspath(it['path']) != os.path.abspath(dst):
        shutil.copy(it['path'], dst)
    return dst


def replay(prop, path):
    """Replay a stored violation: re-run the real generator on the stored grammar and re-decide."""
    obj = json.load(open(path))
    gf = obj['replay']['grammar_file']
    gen = common.kgen_one('gen', gf)
    r = decide_one((os.path.basename(gf), gf, gen, None, 'z3'))
    print(json.dumps({k: v for k, v in r.items() if k != 'queries'}, indent=1, default=str))
    return 1 if r.get('violation') or r['kind'] in ('other-err',) else 0
