"""Tokenizer step harnesses (in-crate Kani, engine E3): C08, and the tokenizer legs of C07, C12, C16."""
from __future__ import annotations
import json
import os
import re

import common
from common import Result
import kani_runner

KIKI = os.path.join(common.REPO, 'kiki')
PFX = 'pipeline::tokenize::verif_steps::proofs::'

# (harness, cost, tags: which properties it serves)
TOK = [
    ('step_main', 6, 'C08 C07 C16'), ('step_slash', 4, 'C08 C07 C16'), ('step_comment', 4, 'C08 C07 C16'),
    ('step_dollar', 4, 'C08 C07'), ('step_pound', 4, 'C08 C07 C12'), ('step_colon', 6, 'C08 C07 C16'),
    ('step_ident', 20, 'C08 C07 C16'), ('flush_ident_at_end_of_input', 12, 'C08 C07 C16'),
    ('step_terminal_ident', 25, 'C08 C07 C16'), ('dispatch_terminal_ident', 5, 'C08 C07'),
    ('flush_terminal_ident_at_end_of_input', 14, 'C08 C07'), ('flush_lexemeless_at_end_of_input', 55, 'C08 C07 C16'),
    ('step_attribute_inner', 25, 'C08 C07 C12'), ('step_attribute_close_dispatch', 5, 'C08 C07 C12'),
    ('finish_attribute_empty', 5, 'C08 C07 C12'), ('finish_attribute_empty_lead2', 5, 'C08 C07 C12'),
    ('finish_attribute_derive', 6, 'C08 C07 C12'), ('finish_attribute_nested', 8, 'C08 C07 C12'),
    ('finish_attribute_mismatch', 5, 'C08 C07 C12'), ('finish_attribute_mismatch_curly', 5, 'C08 C07 C12'),
    ('finish_attribute_wrong_final', 5, 'C08 C07 C12'), ('finish_attribute_multibyte', 8, 'C08 C07 C12'),
    ('finish_attribute_arrow', 5, 'C08 C07 C12'), ('finish_attribute_angles_crossed', 6, 'C08 C07 C12'),
    ('flush_attribute_at_end_of_input_bare', 4, 'C08 C07 C12'), ('flush_attribute_at_end_of_input_open_paren', 4, 'C08 C07 C12'),
    ('flush_attribute_at_end_of_input_text', 4, 'C08 C07 C12'),
    ('step_ident_twin_must_fail', 15, 'C08 C07 C12 C16'),
]
UNITS_DOLLAR = [('dollar::remove_dollars_is_strip_first_n2', 'quick', 4), ('dollar::remove_dollars_is_strip_first_n3', 'quick', 20),
                ('dollar::remove_dollars_is_strip_first_n4', 'quick', 80), ('dollar::remove_dollars_is_strip_first_n5', 'thorough', 600)]

TAG = re.compile(r'\b(C\d\d)\b')


def run_tok_harnesses(prop, tier):
    specs = [{'name': PFX + n, 'cost': c, 'timeout': 900 if tier == 'quick' else 3600, 'expect': 'fail' if 'must_fail' in n else 'pass',
              'extra': ['-Z', 'stubbing'], 'mem_gb': 16}
             for n, c, tags in TOK if prop in tags.split()]
    return kani_runner.run_many(specs, 'tok', KIKI, features='kiki_verif', codegen_extra=['-Z', 'stubbing'])


def run_dollar(tier):
    units = os.path.join(common.VERIF, 'harness', 'kani_units')
    specs = [{'name': n, 'cost': c, 'timeout': 900 if tier == 'quick' else 3600, 'mem_gb': 24} for n, t, c in UNITS_DOLLAR if t == 'quick' or tier == 'thorough']
    return kani_runner.run_many(specs, 'units', units)


CST = [('cst::attrs_order_k0', 'quick'), ('cst::attrs_order_k1', 'quick'), ('cst::attrs_order_k2', 'quick'), ('cst::attrs_order_k3', 'quick'),
       ('cst::attrs_order_k4', 'quick'), ('cst::attrs_order_k5', 'quick'), ('cst::attrs_order_k6', 'quick')]


def run_cst(tier):
    units = os.path.join(common.VERIF, 'harness', 'kani_units')
    specs = [{'name': n, 'cost': 10, 'timeout': 900 if tier == 'quick' else 3600, 'mem_gb': 16} for n, t in CST if t == 'quick' or tier == 'thorough']
    return kani_runner.run_many(specs, 'units', units)


def relevant_failures(prop, r):
    """Failures of harness result r that count for `prop`."""
    out = []
    for f in r['failures']:
        m = TAG.search(f['description'])
        tag = m.group(1) if m else None
        if prop == 'C07':
            if tag is None:           # a Rust-level panic site / arithmetic / slice failure
                out.append(f)
        elif prop == 'C08':
            if tag in (None, 'C08', 'C12'):
                out.append(f)
        elif prop == 'C12':
            if tag in ('C12', 'C08', None):
                out.append(f)
        elif prop == 'C16':
            if tag == 'C16' or (tag in ('C09', None) and 'span::' in r['name']):
                out.append(f)
        elif prop == 'C09':
            if tag in ('C09', None):
                out.append(f)
    return out


def fold(prop, tier, R: Result, results, stats, samples, what):
    for r in results:
        stats['harnesses'] += 1
        stats['cbmc_checks'] += r.get('checks', 0)
        stats['covers'] += r.get('covers_sat', 0)
        stats['solver_s'] += r.get('verification_time', 0.0)
        short = r['name'].split('::')[-1]
        if r['verdict'] == 'pass':
            stats['passed'] += 1
            if r['expect'] == 'fail':
                stats['twins'] += 1
        elif r['verdict'] == 'violation':
            rel = relevant_failures(prop, r)
            if rel:
                R.violation('harness:' + short, '%s %s: %s' % (what, short, '; '.join('%s @ %s' % (f['description'], f['location'].split(' in ')[0]) for f in rel[:3])),
                            {'harness': r['name'], 'crate': KIKI if what == 'tokenizer' else 'units', 'failures': rel[:6], 'concrete_playback': r.get('playback')})
            else:
                R.inconclusive.append('%s: failing assertions belong to other properties: %s' % (short, '; '.join(f['description'] for f in r['failures'][:3])))
        else:
            R.inconclusive.append('%s: %s %s' % (short, r.get('why'), (r.get('log_tail') or '')[-300:]))
        if len(samples) < 12:
            samples.append({'harness': short, 'verdict': r['verdict'], 'cbmc_checks': r.get('checks'),
                            'covers': '%s/%s' % (r.get('covers_sat'), r.get('covers')), 'solver_s': r.get('verification_time')})


FUNCS = ['kiki::pipeline::tokenize::Tokenizer::{handle_char, handle_char_given_state_is_* (9), push_pending_token_and_reset_state, '
         'finish_outer_attribute}, get_reserved_word_kind, get_single_char_punctuation_kind/token, get_reserved_word_token (real code, in-crate harness)']
BOUNDS = ('one transition from an arbitrary state satisfying the representation invariant, arbitrary char (all scalar values); '
          'word / `$` lexemes up to 9 bytes in a 10-byte ASCII window at offset 0 or 1; attribute inner step: no window needed, '
          'offsets < 2000; the step that ends an attribute (finish_outer_attribute) only for 8 concrete bracket skeletons at the end '
          'of the source (symbolic content exhausts memory: 65 GB measured), its argument passing decided symbolically; '
          'whole-string tokenisation follows by induction over the discharged steps (paper argument)')
STUBS = ['DollarlessTerminalName::remove_dollars -> drop first byte (justified by dollar::remove_dollars_is_strip_first_n2..n5 on the real function)',
         'in step_terminal_ident the recursive call self.handle_char is replaced by a recorder asserting state==Main (what handle_char '
         'does from Main is decided by step_main)', 'in step_attribute_close_dispatch finish_outer_attribute is replaced by a recorder']


def run_tok_property(prop, tier, extra_runs=None, level='model_checking'):
    R = Result(prop, tier, level)
    stats = {'harnesses': 0, 'passed': 0, 'twins': 0, 'cbmc_checks': 0, 'covers': 0, 'solver_s': 0.0}
    samples = []
    fold(prop, tier, R, run_tok_harnesses(prop, tier), stats, samples, 'tokenizer')
    if prop in ('C08', 'C07'):
        fold(prop, tier, R, run_dollar(tier), stats, samples, 'unit')
    if prop == 'C12':
        fold(prop, tier, R, run_cst(tier), stats, samples, 'unit')
    if prop == 'C16':
        # "an error remains the same error with its positions shifted accordingly": the parse-error span / text
        # conversion with non-ASCII text in front of the token (span harnesses, shared with C09)
        import checks_total
        fold(prop, tier, R, checks_total.run_span(tier), stats, samples, 'unit')
    extra_cov = {}
    if extra_runs:
        extra_cov = extra_runs(R, tier)
    R.coverage.update({
        'states': max(1, stats['cbmc_checks']), 'transitions': max(1, stats['cbmc_checks']),
        'traces_validated_against_impl': stats['covers'],
        'samples': samples,
        'explanation': 'SAT-based bounded model checking of single tokenizer transitions: states/transitions report CBMC properties '
                       'discharged; traces_validated_against_impl = kani::cover! witnesses produced on the real code',
        'kani': stats, 'functions_encoded': FUNCS, 'bounds': BOUNDS, 'stubs': STUBS,
        'trusted_base': ['Kani 0.68 / CBMC 6.11 / CaDiCaL', 'reference lexer step in harness/tokenize_steps.rs (written from USER_GUIDE.md)'],
        'exhaustive': False,
    })
    R.coverage.update(extra_cov)
    R.assumptions += ['representation invariant Inv(src, idx, state) as stated in harness/tokenize_steps.rs is part of the claim',
                      'reference semantics of attributes: extent by counting brackets of all kinds, kinds matched when the attribute closes '
                      '(the mechanism named in the property anchors); an attribute open at end of input is a lexical error at the end']
    return R.finish()


def replay(prop, path):
    obj = json.load(open(path))
    name = obj['replay']['harness']
    crate = obj['replay'].get('crate', KIKI)
    if crate == KIKI:
        res = kani_runner.run_many([{'name': name, 'timeout': 1800, 'playback': True, 'extra': ['-Z', 'stubbing']}], 'tok', KIKI,
                                   features='kiki_verif', jobs=1, codegen_extra=['-Z', 'stubbing'])
    else:
        res = kani_runner.run_many([{'name': name, 'timeout': 1800, 'playback': True}], 'units',
                                   os.path.join(common.VERIF, 'harness', 'kani_units'), jobs=1)
    r = res[0]
    print(json.dumps({k: r.get(k) for k in ('name', 'verdict', 'why', 'failures', 'playback')}, indent=1))
    return 1 if r['verdict'] == 'violation' else (0 if r['verdict'] == 'pass' else 2)
