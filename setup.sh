#!/bin/sh
# Offline setup: builds the native helper against /repo's current tree. Checks rebuild it themselves anyway.
set -e
cd "$(dirname "$0")"
export CARGO_NET_OFFLINE=true KIKI_VERIF_HARNESS_DIR="$(pwd)/harness"
mkdir -p .build evidence
cp /repo/Cargo.lock tools/kgen/Cargo.lock 2>/dev/null || true
(cd tools/kgen && cargo build --offline --target-dir ../../.build/kgen 2>&1 | tail -3)
echo setup done
