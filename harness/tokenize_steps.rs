// tokenizer step harnesses (filled in later)
