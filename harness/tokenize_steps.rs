// Solver harnesses for single transitions of kiki's tokenizer (engine E3, in-crate).
//
// Included by kiki/src/pipeline/tokenize.rs as `mod verif_steps` under the `kiki_verif`
// feature, so `super::*` names the private `Tokenizer`, `State` and `handle_char*`.
//
// Shape of every harness: an arbitrary state satisfying the representation invariant
// Inv(src, idx, state) over a small symbolic source window, one arbitrary `char`, ONE call
// of the real `handle_char` (or of the end-of-input flush), then
//   * the outcome equals the outcome of a reference lexer step written from USER_GUIDE.md
//     and the property text (independent tables below),
//   * Inv holds again for idx' = idx + len_utf8(c).
// Induction over the characters of a source text is a paper argument on top of these
// discharged steps.  Lexemes longer than the window are outside the claim.

#[cfg(kani)]
mod proofs {
    use super::super::*;
    use crate::data::token::Token;

    // ---------------------------------------------------------------- reference tables
    pub const K_UNDERSCORE: u8 = 0;
    pub const K_IDENT: u8 = 1;
    pub const K_TERMINAL_IDENT: u8 = 2;
    pub const K_OUTER_ATTRIBUTE: u8 = 3;
    pub const K_START: u8 = 4;
    pub const K_STRUCT: u8 = 5;
    pub const K_ENUM: u8 = 6;
    pub const K_TERMINAL: u8 = 7;
    pub const K_COLON: u8 = 8;
    pub const K_DOUBLE_COLON: u8 = 9;
    pub const K_COMMA: u8 = 10;
    pub const K_LPAREN: u8 = 11;
    pub const K_RPAREN: u8 = 12;
    pub const K_LCURLY: u8 = 13;
    pub const K_RCURLY: u8 = 14;
    pub const K_LANGLE: u8 = 15;
    pub const K_RANGLE: u8 = 16;

    /// Unicode White_Space, spelled out (independent of std's tables).
    pub fn ref_is_ws(c: char) -> bool {
        let u = c as u32;
        (u >= 0x09 && u <= 0x0D)
            || u == 0x20
            || u == 0x85
            || u == 0xA0
            || u == 0x1680
            || (u >= 0x2000 && u <= 0x200A)
            || u == 0x2028
            || u == 0x2029
            || u == 0x202F
            || u == 0x205F
            || u == 0x3000
    }
    pub fn ref_ident_start(c: char) -> bool {
        (c >= 'a' && c <= 'z') || (c >= 'A' && c <= 'Z') || c == '_'
    }
    pub fn ref_ident_cont(c: char) -> bool {
        ref_ident_start(c) || (c >= '0' && c <= '9')
    }
    pub fn ref_punct(c: char) -> Option<u8> {
        match c {
            ',' => Some(K_COMMA),
            '(' => Some(K_LPAREN),
            ')' => Some(K_RPAREN),
            '{' => Some(K_LCURLY),
            '}' => Some(K_RCURLY),
            '<' => Some(K_LANGLE),
            '>' => Some(K_RANGLE),
            _ => None,
        }
    }
    pub fn bytes_eq(a: &[u8], b: &[u8]) -> bool {
        if a.len() != b.len() {
            return false;
        }
        let mut i = 0;
        while i < a.len() {
            if a[i] != b[i] {
                return false;
            }
            i += 1;
        }
        true
    }
    /// Reserved word -> token kind.
    pub fn ref_reserved(w: &[u8]) -> Option<u8> {
        if bytes_eq(w, b"_") {
            Some(K_UNDERSCORE)
        } else if bytes_eq(w, b"start") {
            Some(K_START)
        } else if bytes_eq(w, b"struct") {
            Some(K_STRUCT)
        } else if bytes_eq(w, b"enum") {
            Some(K_ENUM)
        } else if bytes_eq(w, b"terminal") {
            Some(K_TERMINAL)
        } else {
            None
        }
    }

    // ---------------------------------------------------------------- reference state / outcome
    #[derive(Clone, Copy, PartialEq, Eq)]
    pub enum RState {
        Main,
        Slash(usize),
        Comment,
        Ident(usize, usize),
        Dollar(usize),
        TerminalIdent(usize, usize),
        Colon(usize),
        Pound(usize),
        Attr(usize, usize, usize), // start, open brackets, end
    }
    #[derive(Clone, Copy, PartialEq, Eq)]
    pub struct RTok {
        pub kind: u8,
        pub pos: usize,   // byte position the token reports
        pub text_s: usize, // payload text = src[text_s..text_e] (for Ident / TerminalIdent / OuterAttribute)
        pub text_e: usize,
    }
    pub const NO_TOK: RTok = RTok { kind: 255, pos: 0, text_s: 0, text_e: 0 };
    #[derive(Clone, Copy, PartialEq, Eq)]
    pub enum ROut {
        Go(RState),
        Err(usize, Option<char>),
    }
    pub struct RStep {
        pub toks: [RTok; 2],
        pub ntok: usize,
        pub out: ROut,
    }

    /// Reference: what a character does when no lexeme is pending.
    pub fn ref_main(c: char, idx: usize, step: &mut RStep) {
        step.out = if ref_is_ws(c) {
            ROut::Go(RState::Main)
        } else if c == '/' {
            ROut::Go(RState::Slash(idx))
        } else if ref_ident_start(c) {
            ROut::Go(RState::Ident(idx, idx + 1))
        } else if c == '$' {
            ROut::Go(RState::Dollar(idx))
        } else if c == ':' {
            ROut::Go(RState::Colon(idx))
        } else if c == '#' {
            ROut::Go(RState::Pound(idx))
        } else if let Some(k) = ref_punct(c) {
            step.toks[step.ntok] = RTok { kind: k, pos: idx, text_s: 0, text_e: 0 };
            step.ntok += 1;
            ROut::Go(RState::Main)
        } else {
            ROut::Err(idx, Some(c))
        };
    }

    /// Reference: flush of a pending word lexeme src[s..e] (identifier or reserved word).
    pub fn ref_flush_word(src: &[u8], s: usize, e: usize, step: &mut RStep) {
        let w = &src[s..e];
        let t = match ref_reserved(w) {
            Some(k) => RTok { kind: k, pos: s, text_s: 0, text_e: 0 },
            None => RTok { kind: K_IDENT, pos: s, text_s: s, text_e: e },
        };
        step.toks[step.ntok] = t;
        step.ntok += 1;
    }

    // ---------------------------------------------------------------- comparison with the real thing
    pub fn tok_matches(t: &Token, r: &RTok, src: &[u8]) -> bool {
        match t {
            Token::Underscore(p) => r.kind == K_UNDERSCORE && p.0 == r.pos,
            Token::Ident(i) => {
                r.kind == K_IDENT && i.position.0 == r.pos && bytes_eq(i.name.as_bytes(), &src[r.text_s..r.text_e])
            }
            Token::TerminalIdent(i) => {
                r.kind == K_TERMINAL_IDENT
                    && i.dollarless_position.0 == r.pos
                    && bytes_eq(i.name.raw().as_bytes(), &src[r.text_s..r.text_e])
            }
            Token::OuterAttribute(a) => {
                r.kind == K_OUTER_ATTRIBUTE && a.position.0 == r.pos && bytes_eq(a.src.as_bytes(), &src[r.text_s..r.text_e])
            }
            Token::StartKw(p) => r.kind == K_START && p.0 == r.pos,
            Token::StructKw(p) => r.kind == K_STRUCT && p.0 == r.pos,
            Token::EnumKw(p) => r.kind == K_ENUM && p.0 == r.pos,
            Token::TerminalKw(p) => r.kind == K_TERMINAL && p.0 == r.pos,
            Token::Colon(p) => r.kind == K_COLON && p.0 == r.pos,
            Token::DoubleColon(p) => r.kind == K_DOUBLE_COLON && p.0 == r.pos,
            Token::Comma(p) => r.kind == K_COMMA && p.0 == r.pos,
            Token::LParen(p) => r.kind == K_LPAREN && p.0 == r.pos,
            Token::RParen(p) => r.kind == K_RPAREN && p.0 == r.pos,
            Token::LCurly(p) => r.kind == K_LCURLY && p.0 == r.pos,
            Token::RCurly(p) => r.kind == K_RCURLY && p.0 == r.pos,
            Token::LAngle(p) => r.kind == K_LANGLE && p.0 == r.pos,
            Token::RAngle(p) => r.kind == K_RANGLE && p.0 == r.pos,
        }
    }

    pub fn state_matches(s: &State, r: &RState) -> bool {
        match (s, r) {
            (State::Main, RState::Main) => true,
            (State::Slash(a), RState::Slash(b)) => a.0 == *b,
            (State::SingleLineComment, RState::Comment) => true,
            (State::Ident(a, b), RState::Ident(c, d)) => a.0 == *c && b.0 == *d,
            (State::Dollar(a), RState::Dollar(b)) => a.0 == *b,
            (State::TerminalIdent(a, b), RState::TerminalIdent(c, d)) => a.0 == *c && b.0 == *d,
            (State::Colon(a), RState::Colon(b)) => a.0 == *b,
            (State::Pound(a), RState::Pound(b)) => a.0 == *b,
            (State::OuterAttribute(a, n, b), RState::Attr(c, m, d)) => a.0 == *c && n.0.get() == *m && b.0 == *d,
            _ => false,
        }
    }

    /// Asserts that the real step result equals the reference step.
    pub fn compare(t: &Tokenizer, r: &Result<(), KikiErr>, step: &RStep, src: &[u8]) {
        match (&step.out, r) {
            (ROut::Go(rs), Ok(())) => {
                assert!(state_matches(&t.state, rs), "C08 next state differs from the documented lexical rules");
                assert!(t.out.len() == step.ntok, "C08 number of tokens emitted differs");
                let mut i = 0;
                while i < step.ntok {
                    assert!(tok_matches(&t.out[i], &step.toks[i], src), "C08 emitted token (kind, position or text) differs");
                    i += 1;
                }
            }
            (ROut::Err(i, c), Err(KikiErr::Lex(bi, bc))) => {
                assert!(bi.0 == *i, "C08 lexical error reports the wrong byte index");
                assert!(*bc == *c, "C08 lexical error reports the wrong character");
            }
            (ROut::Go(_), Err(_)) => assert!(false, "C08 lexical error on text the rules accept"),
            (ROut::Err(_, _), Ok(())) => assert!(false, "C08 text the rules reject was accepted"),
            (ROut::Err(_, _), Err(_)) => assert!(false, "C08 error is not a lexical error"),
        }
    }

    // ---------------------------------------------------------------- window helpers
    pub const W: usize = 10;

    /// ASCII window (valid UTF-8 by construction).
    pub fn ascii_window() -> [u8; W] {
        let b: [u8; W] = kani::any();
        let mut i = 0;
        while i < W {
            kani::assume(b[i] < 128);
            i += 1;
        }
        b
    }
    pub fn as_str(b: &[u8; W]) -> &str {
        unsafe { core::str::from_utf8_unchecked(b) }
    }
    pub fn is_word_lexeme(b: &[u8; W], s: usize, e: usize) -> bool {
        if !(s < e && e <= W) {
            return false;
        }
        let mut i = 0;
        let mut ok = true;
        while i < W {
            if i == s {
                ok &= ref_ident_start(b[i] as char);
            } else if i > s && i < e {
                ok &= ref_ident_cont(b[i] as char);
            }
            i += 1;
        }
        ok
    }

    // ---------------------------------------------------------------- harnesses: states without a lexeme
    #[kani::proof]
    #[kani::unwind(4)]
    fn step_main() {
        let src = "";
        let idx: usize = kani::any();
        kani::assume(idx < 1000);
        let c: char = kani::any();
        let mut t = Tokenizer { src, out: Vec::with_capacity(2), state: State::Main };
        let r = t.handle_char(c, ByteIndex(idx));
        let mut step = RStep { toks: [NO_TOK; 2], ntok: 0, out: ROut::Go(RState::Main) };
        ref_main(c, idx, &mut step);
        // C16: whitespace in Main produces nothing (checked before the full comparison: a failed
        // assertion ends the path)
        if ref_is_ws(c) {
            assert!(r.is_ok() && t.out.len() == 0 && matches!(t.state, State::Main), "C16 whitespace is not skipped");
        }
        compare(&t, &r, &step, &[]);
        kani::cover!(t.out.len() == 1);
        kani::cover!(r.is_err());
        kani::cover!(matches!(t.state, State::Pound(_)));
        kani::cover!(ref_is_ws(c) && (c as u32) > 0x2000);
        core::mem::forget(t);
        core::mem::forget(r);
    }

    fn lexemeless_step(which: u8) {
        let src = "";
        let s: usize = kani::any();
        kani::assume(s < 1000);
        let c: char = kani::any();
        let idx = s + 1;
        let (state, rstate) = match which {
            0 => (State::Slash(ByteIndex(s)), RState::Slash(s)),
            1 => (State::SingleLineComment, RState::Comment),
            2 => (State::Dollar(ByteIndex(s)), RState::Dollar(s)),
            _ => (State::Pound(ByteIndex(s)), RState::Pound(s)),
        };
        let mut t = Tokenizer { src, out: Vec::with_capacity(2), state };
        let r = t.handle_char(c, ByteIndex(idx));
        let mut step = RStep { toks: [NO_TOK; 2], ntok: 0, out: ROut::Go(RState::Main) };
        step.out = match rstate {
            RState::Slash(s) => {
                if c == '/' {
                    ROut::Go(RState::Comment)
                } else {
                    ROut::Err(s, Some('/'))
                }
            }
            RState::Comment => {
                if c == '\n' {
                    ROut::Go(RState::Main)
                } else {
                    ROut::Go(RState::Comment)
                }
            }
            RState::Dollar(s) => {
                if ref_ident_start(c) {
                    ROut::Go(RState::TerminalIdent(s, s + 2))
                } else {
                    ROut::Err(s, Some('$'))
                }
            }
            _ => {
                if c == '[' {
                    ROut::Go(RState::Attr(s, 1, idx + 1))
                } else {
                    ROut::Err(s, Some('#'))
                }
            }
        };
        // C16: a comment swallows every character up to the line feed (and only the line feed ends it)
        if which == 1 {
            assert!(r.is_ok() && t.out.len() == 0, "C16 comment content produced a token or an error");
            assert!(
                matches!(t.state, State::SingleLineComment) == (c != '\n'),
                "C16 a comment must end exactly at the line feed"
            );
        }
        compare(&t, &r, &step, &[]);
        kani::cover!(r.is_ok());
        kani::cover!(which != 1 || matches!(t.state, State::Main));
        kani::cover!(which == 1 || r.is_err());
        core::mem::forget(t);
        core::mem::forget(r);
    }
    #[kani::proof]
    #[kani::unwind(4)]
    fn step_slash() {
        lexemeless_step(0);
    }
    #[kani::proof]
    #[kani::unwind(4)]
    fn step_comment() {
        lexemeless_step(1);
    }
    #[kani::proof]
    #[kani::unwind(4)]
    fn step_dollar() {
        lexemeless_step(2);
    }
    #[kani::proof]
    #[kani::unwind(4)]
    fn step_pound() {
        lexemeless_step(3);
    }

    #[kani::proof]
    #[kani::unwind(4)]
    fn step_colon() {
        let src = "";
        let s: usize = kani::any();
        kani::assume(s < 1000);
        let c: char = kani::any();
        let idx = s + 1;
        let mut t = Tokenizer { src, out: Vec::with_capacity(2), state: State::Colon(ByteIndex(s)) };
        let r = t.handle_char(c, ByteIndex(idx));
        let mut step = RStep { toks: [NO_TOK; 2], ntok: 0, out: ROut::Go(RState::Main) };
        if c == ':' {
            // maximal munch
            step.toks[0] = RTok { kind: K_DOUBLE_COLON, pos: s, text_s: 0, text_e: 0 };
            step.ntok = 1;
        } else {
            step.toks[0] = RTok { kind: K_COLON, pos: s, text_s: 0, text_e: 0 };
            step.ntok = 1;
            ref_main(c, idx, &mut step);
        }
        if ref_is_ws(c) {
            assert!(r.is_ok() && t.out.len() == 1 && matches!(t.state, State::Main), "C16 whitespace after a colon");
        }
        compare(&t, &r, &step, &[]);
        kani::cover!(t.out.len() == 2);
        kani::cover!(c == ':');
        kani::cover!(r.is_err());
        core::mem::forget(t);
        core::mem::forget(r);
    }

    // ---------------------------------------------------------------- harnesses: word lexemes
    #[kani::proof]
    #[kani::unwind(12)]
    fn step_ident() {
        let b = ascii_window();
        let s: usize = kani::any();
        let e: usize = kani::any();
        kani::assume(s <= 2 && e < W);
        kani::assume(is_word_lexeme(&b, s, e));
        let c: char = kani::any();
        let idx = e; // Inv: the end marker is the byte index of the next character
        let mut t = Tokenizer { src: as_str(&b), out: Vec::with_capacity(2), state: State::Ident(ByteIndex(s), ByteIndex(e)) };
        let r = t.handle_char(c, ByteIndex(idx));
        let mut step = RStep { toks: [NO_TOK; 2], ntok: 0, out: ROut::Go(RState::Main) };
        if ref_ident_cont(c) {
            step.out = ROut::Go(RState::Ident(s, e + 1));
        } else {
            ref_flush_word(&b, s, e, &mut step);
            // C16: which token a word becomes depends on the word alone, never on the (arbitrary) text
            // in front of it (up to two arbitrary ASCII bytes here, e.g. `::`)
            if r.is_ok() && t.out.len() >= 1 {
                assert!(tok_matches(&t.out[0], &step.toks[0], &b), "C16 token for a word depends on the text before it");
            }
            ref_main(c, idx, &mut step);
        }
        // C16: whitespace flushes exactly the pending token
        if ref_is_ws(c) {
            assert!(r.is_ok() && t.out.len() == 1 && matches!(t.state, State::Main), "C16 whitespace after a word");
        }
        compare(&t, &r, &step, &b);
        kani::cover!(t.out.len() == 2);
        kani::cover!(t.out.len() == 1 && matches!(t.out[0], Token::TerminalKw(_)));
        kani::cover!(t.out.len() == 1 && matches!(t.out[0], Token::Underscore(_)));
        kani::cover!(t.out.len() == 1 && matches!(t.out[0], Token::Ident(_)) && e - s == 8);
        kani::cover!(r.is_err());
        core::mem::forget(t);
        core::mem::forget(r);
    }

    #[kani::proof]
    #[kani::unwind(12)]
    fn flush_ident_at_end_of_input() {
        let b = ascii_window();
        let s: usize = kani::any();
        let e: usize = kani::any();
        kani::assume(s <= 2 && e <= W);
        kani::assume(is_word_lexeme(&b, s, e));
        // end of input: the source ends where the lexeme ends
        let mut t = Tokenizer { src: &as_str(&b)[..e], out: Vec::with_capacity(2), state: State::Ident(ByteIndex(s), ByteIndex(e)) };
        let r = t.push_pending_token_and_reset_state(None, ByteIndex(e));
        let mut step = RStep { toks: [NO_TOK; 2], ntok: 0, out: ROut::Go(RState::Main) };
        ref_flush_word(&b, s, e, &mut step);
        compare(&t, &r, &step, &b);
        kani::cover!(matches!(t.out[0], Token::Ident(_)));
        kani::cover!(matches!(t.out[0], Token::StructKw(_)));
        core::mem::forget(t);
        core::mem::forget(r);
    }

    // ---------------------------------------------------------------- harnesses: `$` terminal identifiers
    /// Stub for DollarlessTerminalName::remove_dollars on a `$`-prefixed identifier lexeme (the only
    /// kind of argument the tokenizer passes): drop the first byte.  Justified separately by
    /// kani_units::dollar::remove_dollars_is_strip_first (real function, all lexemes up to 6 bytes).
    pub fn stub_remove_dollars(name: &str) -> crate::DollarlessTerminalName {
        let s: String = name[1..].to_string();
        unsafe { core::mem::transmute::<String, crate::DollarlessTerminalName>(s) }
    }

    pub fn is_terminal_lexeme(b: &[u8; W], s: usize, e: usize) -> bool {
        s + 1 < e && e <= W && b[s] == b'$' && is_word_lexeme(b, s + 1, e)
    }

    pub fn ref_flush_terminal(src: &[u8], s: usize, e: usize, at: usize, c: Option<char>, step: &mut RStep) -> bool {
        let name = &src[s + 1..e];
        if ref_reserved(name).is_some() {
            // "for a reserved word after `$`, the position just past it" and the character found there
            step.out = ROut::Err(at, c);
            false
        } else {
            step.toks[step.ntok] = RTok { kind: K_TERMINAL_IDENT, pos: s + 1, text_s: s + 1, text_e: e };
            step.ntok += 1;
            true
        }
    }

    // The flush of a `$` lexeme has two exits (reserved word -> error, else token).  CBMC merges them
    // at the return, which makes the tokenizer state symbolic in the re-dispatch `self.handle_char(c)`
    // and the unrolled recursion explode (no verdict in 15 min, even for concretely spelled names).
    // The recursion is therefore cut compositionally: in this harness the *recursive call* is replaced
    // by a recorder which checks that the state at that moment is Main and remembers (c, idx); what
    // `handle_char` does from Main with any (c, idx) is decided by `step_main`.  Everything else in
    // `handle_char_given_state_is_terminal_ident` and in the flush runs for real.
    static mut REDISPATCH_COUNT: u32 = 0;
    static mut REDISPATCH_C: u32 = 0;
    static mut REDISPATCH_IDX: usize = 0;
    static mut REDISPATCH_FROM_MAIN: bool = false;
    pub fn recorder_handle_char<'a>(t: &mut Tokenizer<'a>, current: char, current_index: ByteIndex) -> Result<(), KikiErr>
    where
        'a: 'a,
    {
        unsafe {
            REDISPATCH_COUNT += 1;
            REDISPATCH_C = current as u32;
            REDISPATCH_IDX = current_index.0;
            REDISPATCH_FROM_MAIN = matches!(t.state, State::Main);
        }
        Ok(())
    }

    #[kani::proof]
    #[kani::stub(crate::data::DollarlessTerminalName::remove_dollars, stub_remove_dollars)]
    #[kani::stub(crate::pipeline::tokenize::Tokenizer::handle_char, recorder_handle_char)]
    #[kani::unwind(12)]
    fn step_terminal_ident() {
        let b = ascii_window();
        let s: usize = kani::any();
        let e: usize = kani::any();
        kani::assume(s <= 1 && e < W);
        kani::assume(is_terminal_lexeme(&b, s, e));
        let c: char = kani::any();
        let idx = e;
        let mut t = Tokenizer { src: as_str(&b), out: Vec::with_capacity(2), state: State::TerminalIdent(ByteIndex(s), ByteIndex(e)) };
        let r = t.handle_char_given_state_is_terminal_ident(c, ByteIndex(idx), ByteIndex(s), ByteIndex(e));
        let mut step = RStep { toks: [NO_TOK; 2], ntok: 0, out: ROut::Go(RState::Main) };
        let mut expect_redispatch = false;
        if ref_ident_cont(c) {
            step.out = ROut::Go(RState::TerminalIdent(s, e + 1));
        } else if ref_flush_terminal(&b, s, e, idx, Some(c), &mut step) {
            expect_redispatch = true;
        }
        if ref_is_ws(c) && ref_reserved(&b[s + 1..e]).is_none() {
            assert!(r.is_ok() && t.out.len() == 1, "C16 whitespace after a terminal name");
        }
        compare(&t, &r, &step, &b);
        unsafe {
            if expect_redispatch {
                assert!(REDISPATCH_COUNT == 1, "C08 pending terminal name flushed but the character is not treated afresh");
                assert!(REDISPATCH_C == c as u32 && REDISPATCH_IDX == idx, "C08 re-dispatch with another character or index");
                assert!(REDISPATCH_FROM_MAIN, "C08 re-dispatch while a lexeme is still pending");
            } else {
                assert!(REDISPATCH_COUNT == 0, "C08 character consumed twice");
            }
        }
        kani::cover!(expect_redispatch && e - s == 9);
        kani::cover!(r.is_err() && e - s == 9 && c == ' ');
        kani::cover!(r.is_err() && e - s == 2);
        kani::cover!(matches!(t.state, State::TerminalIdent(_, _)));
        core::mem::forget(t);
        core::mem::forget(r);
    }

    // the dispatcher arm for TerminalIdent (real handle_char, concrete continuing character)
    #[kani::proof]
    #[kani::unwind(12)]
    fn dispatch_terminal_ident() {
        let b = ascii_window();
        let s: usize = kani::any();
        let e: usize = kani::any();
        kani::assume(s <= 1 && e < W);
        kani::assume(is_terminal_lexeme(&b, s, e));
        let mut t = Tokenizer { src: as_str(&b), out: Vec::with_capacity(2), state: State::TerminalIdent(ByteIndex(s), ByteIndex(e)) };
        let r = t.handle_char('q', ByteIndex(e));
        assert!(r.is_ok() && t.out.len() == 0);
        assert!(state_matches(&t.state, &RState::TerminalIdent(s, e + 1)), "C08 dispatch of a terminal-name state");
        kani::cover!(e - s == 5);
        core::mem::forget(t);
        core::mem::forget(r);
    }

    #[kani::proof]
    #[kani::stub(crate::data::DollarlessTerminalName::remove_dollars, stub_remove_dollars)]
    #[kani::unwind(12)]
    fn flush_terminal_ident_at_end_of_input() {
        let b = ascii_window();
        let s: usize = kani::any();
        let e: usize = kani::any();
        kani::assume(s <= 1 && e <= W);
        kani::assume(is_terminal_lexeme(&b, s, e));
        let mut t = Tokenizer { src: &as_str(&b)[..e], out: Vec::with_capacity(2), state: State::TerminalIdent(ByteIndex(s), ByteIndex(e)) };
        let r = t.push_pending_token_and_reset_state(None, ByteIndex(e));
        let mut step = RStep { toks: [NO_TOK; 2], ntok: 0, out: ROut::Go(RState::Main) };
        ref_flush_terminal(&b, s, e, e, None, &mut step);
        compare(&t, &r, &step, &b);
        kani::cover!(r.is_ok());
        kani::cover!(r.is_err());
        core::mem::forget(t);
        core::mem::forget(r);
    }

    // end-of-input flush of the states without a lexeme
    #[kani::proof]
    #[kani::unwind(4)]
    fn flush_lexemeless_at_end_of_input() {
        let s: usize = kani::any();
        kani::assume(s < 1000);
        let which: u8 = kani::any();
        kani::assume(which < 6);
        let state = match which {
            0 => State::Main,
            1 => State::SingleLineComment,
            2 => State::Slash(ByteIndex(s)),
            3 => State::Dollar(ByteIndex(s)),
            4 => State::Pound(ByteIndex(s)),
            _ => State::Colon(ByteIndex(s)),
        };
        let mut t = Tokenizer { src: "", out: Vec::with_capacity(2), state };
        let r = t.push_pending_token_and_reset_state(None, ByteIndex(s + 1));
        let mut step = RStep { toks: [NO_TOK; 2], ntok: 0, out: ROut::Go(RState::Main) };
        match which {
            0 | 1 => {}
            2 => step.out = ROut::Err(s, Some('/')),
            3 => step.out = ROut::Err(s, Some('$')),
            4 => step.out = ROut::Err(s, Some('#')),
            _ => {
                step.toks[0] = RTok { kind: K_COLON, pos: s, text_s: 0, text_e: 0 };
                step.ntok = 1;
            }
        }
        compare(&t, &r, &step, &[]);
        kani::cover!(which == 5 && r.is_ok());
        kani::cover!(which == 1 && r.is_ok());
        kani::cover!(which == 4 && r.is_err());
        core::mem::forget(t);
        core::mem::forget(r);
    }

    // ---------------------------------------------------------------- harnesses: `#[...]` attributes
    pub fn is_open(c: char) -> bool {
        c == '(' || c == '[' || c == '{'
    }
    pub fn is_close(c: char) -> bool {
        c == ')' || c == ']' || c == '}'
    }

    /// One character inside an attribute that does not end it.  The source is not read on these paths;
    /// Inv: end == idx.  Reference: extent by bracket counting (all kinds lumped), any other character
    /// except line feed belongs to the attribute and advances the end by ITS encoded length.
    #[kani::proof]
    #[kani::unwind(4)]
    fn step_attribute_inner() {
        let s: usize = kani::any();
        let e: usize = kani::any();
        let n: usize = kani::any();
        kani::assume(s < 1000 && e >= s + 2 && e < 2000 && n >= 1 && n < usize::MAX);
        let c: char = kani::any();
        kani::assume(!(is_close(c) && n == 1));
        let idx = e;
        let count = LeftBracketCount(NonZeroUsize::new(n).unwrap());
        let mut t = Tokenizer { src: "", out: Vec::with_capacity(2), state: State::OuterAttribute(ByteIndex(s), count, ByteIndex(e)) };
        let r = t.handle_char(c, ByteIndex(idx));
        let mut step = RStep { toks: [NO_TOK; 2], ntok: 0, out: ROut::Go(RState::Main) };
        let next = idx + c.len_utf8();
        step.out = if is_open(c) {
            ROut::Go(RState::Attr(s, n + 1, next))
        } else if is_close(c) {
            ROut::Go(RState::Attr(s, n - 1, next))
        } else if c == '\n' {
            ROut::Err(idx, Some('\n'))
        } else {
            ROut::Go(RState::Attr(s, n, next))
        };
        compare(&t, &r, &step, &[]);
        kani::cover!(is_open(c));
        kani::cover!(is_close(c));
        kani::cover!(c.len_utf8() == 3 && r.is_ok());
        kani::cover!(r.is_err());
        core::mem::forget(t);
        core::mem::forget(r);
    }

    pub const AW: usize = 8;

    /// Reference bracket matcher over src[from..to): Ok, or the absolute index and character of the first
    /// closer that does not match the innermost open bracket (or has none to match).
    pub fn ref_match_brackets(src: &str, from: usize, to: usize) -> Option<(usize, char)> {
        let mut stack = [0u8; AW];
        let mut sp = 0;
        let b = src.as_bytes();
        let mut i = from;
        while i < to {
            let x = b[i];
            if x == b'(' || x == b'[' || x == b'{' {
                stack[sp] = x;
                sp += 1;
            } else if x == b')' || x == b']' || x == b'}' {
                if sp == 0 {
                    return Some((i, x as char));
                }
                sp -= 1;
                let o = stack[sp];
                let ok = (o == b'(' && x == b')') || (o == b'[' && x == b']') || (o == b'{' && x == b'}');
                if !ok {
                    return Some((i, x as char));
                }
            }
            i += 1;
        }
        None
    }

    /// Inv for a pending attribute over src: `#[` at s, e on a char boundary, no line feed inside,
    /// count == 1 + opens - closes in src[s+2..e) and the running count never dropped to 0.
    pub fn attr_inv(src: &str, s: usize, n: usize, e: usize) -> bool {
        let b = src.as_bytes();
        if !(s + 2 <= e && e <= b.len() && src.is_char_boundary(e)) {
            return false;
        }
        if b[s] != b'#' || b[s + 1] != b'[' {
            return false;
        }
        let mut cnt: usize = 1;
        let mut ok = true;
        let mut i = s + 2;
        while i < e {
            let x = b[i];
            if x == b'\n' {
                ok = false;
            }
            if x == b'(' || x == b'[' || x == b'{' {
                cnt += 1;
            } else if x == b')' || x == b']' || x == b'}' {
                if cnt <= 1 {
                    ok = false;
                } else {
                    cnt -= 1;
                }
            }
            i += 1;
        }
        ok && cnt == n
    }

    // The step that ENDS an attribute runs `finish_outer_attribute`, whose `Vec<char>` bracket stack and
    // `char_indices` decoding over symbolic bytes exhaust memory in CBMC (65 GB at 3 symbolic content
    // bytes; measured).  Symbolic attribute *content* at the closing step is therefore outside reach.
    // What is decided here: concrete bracket skeletons (the control flow of the stack is then concrete),
    // with the attribute placed after `lead` arbitrary ASCII bytes and followed by arbitrary ASCII, so
    // that all index arithmetic (absolute error index, slice bounds, token position) is exercised at a
    // non-zero offset.  Multi-byte content is concrete UTF-8.
    pub const AWIN: usize = 20;
    pub fn attr_window(lead: usize, content: &[u8], tail: usize) -> ([u8; AWIN], usize, usize) {
        let mut b = [b' '; AWIN];
        let mut p = 0;
        let mut i = 0;
        while i < lead {
            let x: u8 = kani::any();
            kani::assume(x < 128);
            b[p] = x;
            p += 1;
            i += 1;
        }
        b[p] = b'#';
        b[p + 1] = b'[';
        p += 2;
        let mut k = 0;
        while k < content.len() {
            b[p] = content[k];
            p += 1;
            k += 1;
        }
        let content_end = p;
        let mut j = 0;
        while j < tail {
            let x: u8 = kani::any();
            kani::assume(x < 128);
            b[p] = x;
            p += 1;
            j += 1;
        }
        (b, p, content_end)
    }

    /// `content` includes the final closing bracket.  Calls the real `finish_outer_attribute` with the
    /// arguments the closing step passes (decided by `step_attribute_close_dispatch`).
    fn attribute_finish(lead: usize, content: &'static [u8]) {
        let (b, len, after) = attr_window(lead, content, 0);
        let src = unsafe { core::str::from_utf8_unchecked(&b[..len]) };
        let s = lead;
        let e = after - 1;
        assert!(attr_inv(src, s, 1, e));
        assert!(is_close(b[e] as char));
        let count = LeftBracketCount(NonZeroUsize::new(1).unwrap());
        let mut t = Tokenizer { src, out: Vec::with_capacity(2), state: State::OuterAttribute(ByteIndex(s), count, ByteIndex(e)) };
        let r = t.finish_outer_attribute(ByteIndex(s), ByteIndex(e + 1));
        let mut step = RStep { toks: [NO_TOK; 2], ntok: 0, out: ROut::Go(RState::Main) };
        match ref_match_brackets(src, s + 1, e + 1) {
            Some((i, ch)) => step.out = ROut::Err(i, Some(ch)),
            None => {
                // C12: the attribute text is exactly src[s..e+1], from `#` to the closing bracket
                step.toks[0] = RTok { kind: K_OUTER_ATTRIBUTE, pos: s, text_s: s, text_e: e + 1 };
                step.ntok = 1;
            }
        }
        compare(&t, &r, &step, &b);
        kani::cover!(true);
        core::mem::forget(t);
        core::mem::forget(r);
    }
    macro_rules! attribute_finish_harness {
        ($name:ident, $lead:expr, $content:expr) => {
            #[kani::proof]
            #[kani::unwind(22)]
            fn $name() {
                attribute_finish($lead, $content);
            }
        };
    }
    attribute_finish_harness!(finish_attribute_empty, 0, b"]");
    attribute_finish_harness!(finish_attribute_empty_lead2, 2, b"]");
    attribute_finish_harness!(finish_attribute_derive, 1, b"derive(A)]");
    attribute_finish_harness!(finish_attribute_nested, 1, b"a({[]},())]");
    attribute_finish_harness!(finish_attribute_mismatch, 1, b"a(])");
    attribute_finish_harness!(finish_attribute_mismatch_curly, 2, b"{x)]");
    attribute_finish_harness!(finish_attribute_wrong_final, 1, b"ab}");
    attribute_finish_harness!(finish_attribute_arrow, 1, b"x->y]");
    attribute_finish_harness!(finish_attribute_angles_crossed, 1, b"a<(b>)<=c]");
    attribute_finish_harness!(finish_attribute_multibyte, 1, "d=\u{e9}\u{4e2d}\u{1f600}]".as_bytes());

    static mut FINISH_COUNT: u32 = 0;
    static mut FINISH_START: usize = 0;
    static mut FINISH_END: usize = 0;
    pub fn recorder_finish<'a>(_t: &mut Tokenizer<'a>, start: ByteIndex, end: ByteIndex) -> Result<(), KikiErr>
    where
        'a: 'a,
    {
        unsafe {
            FINISH_COUNT += 1;
            FINISH_START = start.0;
            FINISH_END = end.0;
        }
        Ok(())
    }

    /// A closing bracket while exactly one bracket is open hands src[start .. idx + 1) to the finisher.
    #[kani::proof]
    #[kani::stub(crate::pipeline::tokenize::Tokenizer::finish_outer_attribute, recorder_finish)]
    #[kani::unwind(4)]
    fn step_attribute_close_dispatch() {
        let s: usize = kani::any();
        let e: usize = kani::any();
        kani::assume(s < 1000 && e >= s + 2 && e < 2000);
        let c: char = kani::any();
        kani::assume(is_close(c));
        let count = LeftBracketCount(NonZeroUsize::new(1).unwrap());
        let mut t = Tokenizer { src: "", out: Vec::with_capacity(2), state: State::OuterAttribute(ByteIndex(s), count, ByteIndex(e)) };
        let r = t.handle_char(c, ByteIndex(e));
        unsafe {
            assert!(r.is_ok() && FINISH_COUNT == 1, "C08 closing bracket does not end the attribute");
            assert!(FINISH_START == s && FINISH_END == e + 1, "C12 attribute extent handed to the finisher is not `#` .. closing bracket");
        }
        kani::cover!(c == '}');
        core::mem::forget(t);
        core::mem::forget(r);
    }

    /// End of input while an attribute is still open: USER_GUIDE ("expected `)` but got end of input")
    /// makes this unbalanced, hence not a token: lexical error at the end of the source.
    fn attribute_eof_flush(lead: usize, content: &'static [u8], n: usize) {
        let (b, len, e) = attr_window(lead, content, 0);
        let src = unsafe { core::str::from_utf8_unchecked(&b[..len]) };
        let s = lead;
        assert!(attr_inv(src, s, n, e));
        let count = LeftBracketCount(NonZeroUsize::new(n).unwrap());
        let mut t = Tokenizer { src, out: Vec::with_capacity(2), state: State::OuterAttribute(ByteIndex(s), count, ByteIndex(e)) };
        let r = t.push_pending_token_and_reset_state(None, ByteIndex(len));
        let step = RStep { toks: [NO_TOK; 2], ntok: 0, out: ROut::Err(len, None) };
        compare(&t, &r, &step, &b);
        kani::cover!(true);
        core::mem::forget(t);
        core::mem::forget(r);
    }
    macro_rules! attribute_eof_harness {
        ($name:ident, $lead:expr, $content:expr, $n:expr) => {
            #[kani::proof]
            #[kani::unwind(22)]
            fn $name() {
                attribute_eof_flush($lead, $content, $n);
            }
        };
    }
    attribute_eof_harness!(flush_attribute_at_end_of_input_bare, 1, b"", 1);
    attribute_eof_harness!(flush_attribute_at_end_of_input_open_paren, 0, b"derive(", 2);
    attribute_eof_harness!(flush_attribute_at_end_of_input_text, 2, b"abc", 1);

    // vacuity twin: same set-up as step_ident with a false claim; must FAIL
    #[kani::proof]
    #[kani::unwind(12)]
    fn step_ident_twin_must_fail() {
        let b = ascii_window();
        let s: usize = kani::any();
        let e: usize = kani::any();
        kani::assume(s <= 1 && e < W);
        kani::assume(is_word_lexeme(&b, s, e));
        let c: char = kani::any();
        let mut t = Tokenizer { src: as_str(&b), out: Vec::with_capacity(2), state: State::Ident(ByteIndex(s), ByteIndex(e)) };
        let r = t.handle_char(c, ByteIndex(e));
        assert!(t.out.len() == 0, "EXPECTED-FAIL: some characters flush the pending word");
        core::mem::forget(t);
        core::mem::forget(r);
    }
}
