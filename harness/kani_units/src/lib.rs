//! Kani harnesses over kiki's own functions (engine E3).  Out-of-tree: path dependency on /repo/kiki.
#[cfg(kani)]
mod oset;
#[cfg(kani)]
mod dollar;
#[cfg(kani)]
mod span;
#[cfg(kani)]
mod cst;
