//! C12 (order leg): the left-recursive CST list of outer attributes is flattened in source order by the
//! real `From<cst::OptOuterAttributes> for Vec<ast::Attribute>`; every attribute keeps its text object
//! (identified here by its symbolic position) exactly once.
use kiki::data::cst::OptOuterAttributes;
use kiki::data::token::Attribute;
use kiki::ByteIndex;

macro_rules! attrs_order_harness {
    ($name:ident, $k:expr, $unwind:expr) => {
        #[kani::proof]
        #[kani::unwind($unwind)]
        fn $name() {
            let pos: [usize; $k] = kani::any();
            // `a0 a1 .. a(k-1)` parses to Cons(Cons(..Cons(Nil, a0).., a(k-2)), a(k-1))
            let mut list = OptOuterAttributes::Nil;
            let mut i = 0;
            while i < $k {
                list = OptOuterAttributes::Cons(
                    Box::new(list),
                    Attribute { src: String::new(), position: ByteIndex(pos[i]) },
                );
                i += 1;
            }
            let v: Vec<Attribute> = list.into();
            assert!(v.len() == $k, "C12 attributes dropped or duplicated");
            let j: usize = kani::any();
            if j < $k {
                assert!(v[j].position.0 == pos[j], "C12 attributes reordered");
            }
            kani::cover!(v.len() == $k);
            core::mem::forget(v);
        }
    };
}
attrs_order_harness!(attrs_order_k0, 0, 3);
attrs_order_harness!(attrs_order_k1, 1, 4);
attrs_order_harness!(attrs_order_k2, 2, 5);
attrs_order_harness!(attrs_order_k3, 3, 6);
attrs_order_harness!(attrs_order_k4, 4, 7);
attrs_order_harness!(attrs_order_k5, 5, 8);
attrs_order_harness!(attrs_order_k6, 6, 9);
