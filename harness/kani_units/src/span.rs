//! C09 / C07: the byte span and text of a parse error.  For every token kind, a token built the way
//! the tokenizer builds it for a lexeme at src[p..p+len) (the post-condition the tokenizer step
//! harnesses establish) goes through the real `unexpected_token_or_eof_to_kiki_err`.
use kiki::data::token::{Attribute, Ident, TerminalIdent, Token};
use kiki::verif_hooks::unexpected_token_or_eof_to_kiki_err;
use kiki::{ByteIndex, DollarlessTerminalName, KikiErr};

const W: usize = 12;

/// Window: optional 2-byte character first (so that p = 2 is preceded by non-ASCII text), then ASCII.
fn window(multibyte_prefix: bool) -> [u8; W] {
    let mut b: [u8; W] = kani::any();
    let mut i = 0;
    while i < W {
        kani::assume(b[i] < 128);
        i += 1;
    }
    if multibyte_prefix {
        b[0] = 0xC3;
        b[1] = 0xA9;
    }
    b
}

fn bytes_eq(a: &[u8], b: &[u8]) -> bool {
    if a.len() != b.len() {
        return false;
    }
    let mut i = 0;
    while i < a.len() {
        if a[i] != b[i] {
            return false;
        }
        i += 1;
    }
    true
}

fn check(e: KikiErr, b: &[u8; W], p: usize, len: usize) {
    match &e {
        KikiErr::Parse(s, text, t) => {
            assert!(s.0 == p, "C09 parse error span does not start at the token");
            assert!(t.0 == p + len, "C09 parse error span does not end after the token");
            assert!(bytes_eq(text.as_bytes(), &b[p..p + len]), "C09 parse error text is not the token's source text");
        }
        _ => assert!(false, "C09 not a parse error"),
    }
    core::mem::forget(e);
}

fn position(multibyte_prefix: bool) -> usize {
    let p: usize = kani::any();
    kani::assume(p <= 3);
    if multibyte_prefix {
        kani::assume(p >= 2);
    }
    p
}

macro_rules! fixed_len_harness {
    ($name:ident, $variant:ident, $len:expr) => {
        #[kani::proof]
        #[kani::unwind(14)]
        fn $name() {
            let mb: bool = kani::any();
            let b = window(mb);
            let src = unsafe { core::str::from_utf8_unchecked(&b) };
            let p = position(mb);
            let tok = Token::$variant(ByteIndex(p));
            let e = unexpected_token_or_eof_to_kiki_err(Some(&tok), src);
            check(e, &b, p, $len);
            kani::cover!(mb && p == 2);
            kani::cover!(!mb && p == 1);
            core::mem::forget(tok);
        }
    };
}
fixed_len_harness!(span_underscore, Underscore, 1);
fixed_len_harness!(span_start_kw, StartKw, 5);
fixed_len_harness!(span_struct_kw, StructKw, 6);
fixed_len_harness!(span_enum_kw, EnumKw, 4);
fixed_len_harness!(span_terminal_kw, TerminalKw, 8);
fixed_len_harness!(span_colon, Colon, 1);
fixed_len_harness!(span_double_colon, DoubleColon, 2);
fixed_len_harness!(span_comma, Comma, 1);
fixed_len_harness!(span_lparen, LParen, 1);
fixed_len_harness!(span_rparen, RParen, 1);
fixed_len_harness!(span_lcurly, LCurly, 1);
fixed_len_harness!(span_rcurly, RCurly, 1);
fixed_len_harness!(span_langle, LAngle, 1);
fixed_len_harness!(span_rangle, RAngle, 1);

fn lexeme_len() -> usize {
    let l: usize = kani::any();
    kani::assume(l >= 1 && l <= 6);
    l
}

#[kani::proof]
#[kani::unwind(14)]
fn span_ident() {
    let mb: bool = kani::any();
    let b = window(mb);
    let src = unsafe { core::str::from_utf8_unchecked(&b) };
    let p = position(mb);
    let l = lexeme_len();
    let tok = Token::Ident(Ident { name: src[p..p + l].to_string(), position: ByteIndex(p) });
    let e = unexpected_token_or_eof_to_kiki_err(Some(&tok), src);
    check(e, &b, p, l);
    kani::cover!(mb && p == 2 && l == 6);
    core::mem::forget(tok);
}

#[kani::proof]
#[kani::unwind(14)]
fn span_terminal_ident() {
    let mb: bool = kani::any();
    let b = window(mb);
    let src = unsafe { core::str::from_utf8_unchecked(&b) };
    let p = position(mb);
    let l = lexeme_len();
    kani::assume(l >= 2);
    // lexeme `$name` at p: the tokenizer stores the name without `$` and the position after `$`
    let name: String = src[p + 1..p + l].to_string();
    let name = unsafe { core::mem::transmute::<String, DollarlessTerminalName>(name) };
    let tok = Token::TerminalIdent(TerminalIdent { name, dollarless_position: ByteIndex(p + 1) });
    let e = unexpected_token_or_eof_to_kiki_err(Some(&tok), src);
    check(e, &b, p, l);
    kani::cover!(p == 3 && l == 6);
    core::mem::forget(tok);
}

#[kani::proof]
#[kani::unwind(14)]
fn span_outer_attribute() {
    let mb: bool = kani::any();
    let b = window(mb);
    let src = unsafe { core::str::from_utf8_unchecked(&b) };
    let p = position(mb);
    let l = lexeme_len();
    kani::assume(l >= 3);
    let tok = Token::OuterAttribute(Attribute { src: src[p..p + l].to_string(), position: ByteIndex(p) });
    let e = unexpected_token_or_eof_to_kiki_err(Some(&tok), src);
    check(e, &b, p, l);
    kani::cover!(p == 2 && l == 3);
    core::mem::forget(tok);
}

#[kani::proof]
#[kani::unwind(14)]
fn span_end_of_input() {
    let mb: bool = kani::any();
    let b = window(mb);
    let n: usize = kani::any();
    kani::assume(n <= W && !(mb && n == 1));
    let src = unsafe { core::str::from_utf8_unchecked(&b[..n]) };
    let e = unexpected_token_or_eof_to_kiki_err(None, src);
    match &e {
        KikiErr::Parse(s, text, t) => {
            assert!(s.0 == n && t.0 == n && text.len() == 0, "C09 unexpected end of input is not the empty span at the end of the source");
        }
        _ => assert!(false, "C09 not a parse error"),
    }
    kani::cover!(n == 0);
    kani::cover!(n == W);
    core::mem::forget(e);
}

#[kani::proof]
#[kani::unwind(14)]
fn span_twin_must_fail() {
    let b = window(false);
    let src = unsafe { core::str::from_utf8_unchecked(&b) };
    let p = position(false);
    let tok = Token::StartKw(ByteIndex(p));
    let e = unexpected_token_or_eof_to_kiki_err(Some(&tok), src);
    assert!(matches!(e, KikiErr::Lex(_, _)), "EXPECTED-FAIL: a parse error is returned");
    core::mem::forget(e);
    core::mem::forget(tok);
}
