//! C18: kiki::Oset behaves as a sorted mathematical set.
//! All lengths are concrete per harness (a symbolic length makes `sort` explode in CBMC);
//! element values are symbolic.  Model: plain arrays with linear search.
use kiki::Oset;

fn strictly_increasing<T: Ord>(s: &[T]) -> bool {
    let mut i = 1;
    while i < s.len() {
        if !(s[i - 1] < s[i]) {
            return false;
        }
        i += 1;
    }
    true
}

fn model_contains<T: Ord>(given: &[T], y: &T) -> bool {
    let mut i = 0;
    while i < given.len() {
        if given[i] == *y {
            return true;
        }
        i += 1;
    }
    false
}

/// Model of "sorted distinct elements" on a fixed array: insertion into a prefix.
fn model_sorted_distinct<const N: usize>(arr: [u8; N]) -> ([u8; N], usize) {
    let mut out = [0u8; N];
    let mut len = 0;
    let mut i = 0;
    while i < N {
        let x = arr[i];
        let mut pos = 0;
        while pos < len && out[pos] < x {
            pos += 1;
        }
        if !(pos < len && out[pos] == x) {
            let mut j = len;
            while j > pos {
                out[j] = out[j - 1];
                j -= 1;
            }
            out[pos] = x;
            len += 1;
        }
        i += 1;
    }
    (out, len)
}

fn ascending_base<const M: usize>() -> [u8; M] {
    let base: [u8; M] = kani::any();
    let mut i = 1;
    while i < M {
        kani::assume(base[i - 1] < base[i]);
        i += 1;
    }
    base
}

/// An arbitrary *valid* Oset state with a concrete length: strictly ascending symbolic contents.
/// `Oset<T>` is a single-field struct around `Vec<T>`; the harness re-checks the view it gets.
fn valid_state<const M: usize>(base: [u8; M]) -> Oset<u8> {
    let v: Vec<u8> = Vec::from(base);
    let set: Oset<u8> = unsafe { core::mem::transmute::<Vec<u8>, Oset<u8>>(v) };
    assert!(set.len() == M);
    let mut i = 0;
    while i < M {
        assert!(set[i] == base[i]);
        i += 1;
    }
    set
}

macro_rules! from_iter_harness {
    ($name:ident, $t:ty, $n:expr, $unwind:expr) => {
        #[kani::proof]
        #[kani::unwind($unwind)]
        fn $name() {
            let arr: [$t; $n] = kani::any();
            let set: Oset<$t> = arr.into_iter().collect();
            assert!(strictly_increasing(&set));
            assert!(set.len() <= $n);
            let y: $t = kani::any();
            assert_eq!(set.contains(&y), model_contains(&arr, &y));
            let k: usize = kani::any();
            if k < set.len() {
                assert!(model_contains(&arr, &set[k]));
            }
            kani::cover!(set.len() == $n);
            kani::cover!(set.len() == ($n + 1) / 2);
        }
    };
}
from_iter_harness!(oset_from_iter_u8_n0, u8, 0, 3);
from_iter_harness!(oset_from_iter_u8_n1, u8, 1, 4);
from_iter_harness!(oset_from_iter_u8_n2, u8, 2, 5);
from_iter_harness!(oset_from_iter_u8_n3, u8, 3, 6);
from_iter_harness!(oset_from_iter_u8_n4, u8, 4, 7);
from_iter_harness!(oset_from_iter_pair_n2, (u8, u8), 2, 5);
from_iter_harness!(oset_from_iter_pair_n3, (u8, u8), 3, 6);
from_iter_harness!(oset_from_iter_u8_n5, u8, 5, 8);
from_iter_harness!(oset_from_iter_u8_n6, u8, 6, 9);
from_iter_harness!(oset_from_iter_u16_n4, u16, 4, 7);
from_iter_harness!(oset_from_iter_pair_n4, (u8, u8), 4, 7);

// One insert from an arbitrary valid set of M elements (inductive step: histories of any length).
macro_rules! insert_harness {
    ($name:ident, $m:expr, $unwind:expr) => {
        #[kani::proof]
        #[kani::unwind($unwind)]
        fn $name() {
            let base: [u8; $m] = ascending_base::<$m>();
            let mut set: Oset<u8> = valid_state(base);
            let x: u8 = kani::any();
            set.insert(x);
            assert!(strictly_increasing(&set));
            let was_in = model_contains(&base, &x);
            assert_eq!(set.len(), if was_in { $m } else { $m + 1 });
            let y: u8 = kani::any();
            assert_eq!(set.contains(&y), y == x || model_contains(&base, &y));
            kani::cover!(was_in || $m == 0);
            kani::cover!(!was_in && set.len() > 0 && set[0] == x);
            kani::cover!(!was_in && set[set.len() - 1] == x);
        }
    };
}
insert_harness!(oset_insert_from_valid_m0, 0, 4);
insert_harness!(oset_insert_from_valid_m1, 1, 5);
insert_harness!(oset_insert_from_valid_m2, 2, 6);
insert_harness!(oset_insert_from_valid_m3, 3, 7);
insert_harness!(oset_insert_from_valid_m4, 4, 8);
insert_harness!(oset_insert_from_valid_m6, 6, 10);
insert_harness!(oset_insert_from_valid_m8, 8, 12);
insert_harness!(oset_insert_from_valid_m12, 12, 16);
insert_harness!(oset_insert_from_valid_m16, 16, 20);

macro_rules! extend_harness {
    ($name:ident, $m:expr, $k:expr, $unwind:expr) => {
        #[kani::proof]
        #[kani::unwind($unwind)]
        fn $name() {
            let base: [u8; $m] = ascending_base::<$m>();
            let mut set: Oset<u8> = valid_state(base);
            let more: [u8; $k] = kani::any();
            set.extend(more);
            assert!(strictly_increasing(&set));
            assert!(set.len() <= $m + $k);
            assert!(set.len() >= $m);
            let y: u8 = kani::any();
            assert_eq!(set.contains(&y), model_contains(&more, &y) || model_contains(&base, &y));
            kani::cover!(set.len() == $m + $k);
            kani::cover!(set.len() == $m || $m == 0);
        }
    };
}
extend_harness!(oset_extend_m0_k2, 0, 2, 6);
extend_harness!(oset_extend_m2_k1, 2, 1, 7);
extend_harness!(oset_extend_m2_k2, 2, 2, 8);
extend_harness!(oset_extend_m3_k2, 3, 2, 9);
extend_harness!(oset_extend_m2_k0, 2, 0, 6);
extend_harness!(oset_extend_m4_k3, 4, 3, 11);
extend_harness!(oset_extend_m5_k1, 5, 1, 10);
extend_harness!(oset_extend_m6_k3, 6, 3, 13);
extend_harness!(oset_extend_m4_k4, 4, 4, 12);

// Short histories from `new()`.  After the first operation the length is symbolic, which
// `sort_unstable` inside `extend` cannot survive in CBMC, so the second step is an insert.
// Three-step histories (insert x4, extend+insert+insert) gave no verdict in 15 min and are
// covered only through the inductive single-step harnesses above.
#[kani::proof]
#[kani::unwind(7)]
fn oset_history_insert_x2() {
    let mut set: Oset<u8> = Oset::new();
    let g: [u8; 2] = kani::any();
    set.insert(g[0]);
    set.insert(g[1]);
    assert!(strictly_increasing(&set));
    let y: u8 = kani::any();
    assert_eq!(set.contains(&y), model_contains(&g, &y));
    assert!(set.len() == if g[0] == g[1] { 1 } else { 2 });
    kani::cover!(set.len() == 2 && set[0] == g[1]);
    kani::cover!(set.len() == 1);
}

#[kani::proof]
#[kani::unwind(7)]
fn oset_history_extend_insert() {
    let mut set: Oset<u8> = Oset::new();
    let g: [u8; 3] = kani::any();
    set.extend([g[0], g[1]]);
    set.insert(g[2]);
    assert!(strictly_increasing(&set));
    let y: u8 = kani::any();
    assert_eq!(set.contains(&y), model_contains(&g, &y));
    let (_, n) = model_sorted_distinct(g);
    assert!(set.len() == n);
    kani::cover!(set.len() == 3);
    kani::cover!(set.len() == 1);
}

// Equality and ordering depend only on the element sets.
macro_rules! eq_cmp_harness {
    ($name:ident, $n1:expr, $n2:expr, $unwind:expr) => {
        #[kani::proof]
        #[kani::unwind($unwind)]
        fn $name() {
            let a: [u8; $n1] = kani::any();
            let b: [u8; $n2] = kani::any();
            let sa: Oset<u8> = a.into_iter().collect();
            let sb: Oset<u8> = b.into_iter().collect();
            let (ma, la) = model_sorted_distinct(a);
            let (mb, lb) = model_sorted_distinct(b);
            // model comparison: lexicographic on sorted distinct elements
            let mut ord = core::cmp::Ordering::Equal;
            let mut i = 0;
            while i < la && i < lb {
                if ma[i] != mb[i] {
                    ord = if ma[i] < mb[i] { core::cmp::Ordering::Less } else { core::cmp::Ordering::Greater };
                    break;
                }
                i += 1;
            }
            if ord == core::cmp::Ordering::Equal {
                ord = if la < lb {
                    core::cmp::Ordering::Less
                } else if la > lb {
                    core::cmp::Ordering::Greater
                } else {
                    core::cmp::Ordering::Equal
                };
            }
            assert_eq!(sa.cmp(&sb), ord);
            assert_eq!(sa.partial_cmp(&sb), Some(ord));
            assert_eq!(sa == sb, ord == core::cmp::Ordering::Equal);
            // set equality stated directly on the given elements
            let mut same = true;
            let mut i = 0;
            while i < $n1 {
                same &= model_contains(&b, &a[i]);
                i += 1;
            }
            let mut j = 0;
            while j < $n2 {
                same &= model_contains(&a, &b[j]);
                j += 1;
            }
            assert_eq!(sa == sb, same);
            kani::cover!(sa == sb || $n1 == 0);
            kani::cover!(sa < sb);
            kani::cover!(sa > sb || $n1 == 0);
        }
    };
}
eq_cmp_harness!(oset_eq_cmp_2_2, 2, 2, 6);
eq_cmp_harness!(oset_eq_cmp_3_2, 3, 2, 7);
eq_cmp_harness!(oset_eq_cmp_3_3, 3, 3, 7);
eq_cmp_harness!(oset_eq_cmp_1_3, 1, 3, 7);
eq_cmp_harness!(oset_eq_cmp_0_2, 0, 2, 6);
eq_cmp_harness!(oset_eq_cmp_4_4, 4, 4, 8);
eq_cmp_harness!(oset_eq_cmp_4_3, 4, 3, 8);

// Iteration yields exactly the slice view, in order; new/default are empty.
#[kani::proof]
#[kani::unwind(7)]
fn oset_iteration_n3() {
    let arr: [u8; 3] = kani::any();
    let set: Oset<u8> = arr.into_iter().collect();
    let mut i = 0;
    for x in &set {
        assert!(*x == set[i]);
        i += 1;
    }
    assert!(i == set.len());
    let view: [u8; 3] = {
        let mut v = [0u8; 3];
        let mut k = 0;
        while k < set.len() {
            v[k] = set[k];
            k += 1;
        }
        v
    };
    let n = set.len();
    let mut j = 0;
    for x in set {
        assert!(x == view[j]);
        j += 1;
    }
    assert!(j == n);
    let e: Oset<u8> = Oset::new();
    let d: Oset<u8> = Default::default();
    assert!(e.len() == 0 && d.len() == 0 && e == d);
    assert!(!e.contains(&kani::any()));
    kani::cover!(n == 3);
    kani::cover!(n == 1);
}

// Concrete inputs (no quantification).  Kept only because a change that makes the length symbolic
// BEFORE a sort (e.g. dedup-then-sort) turns every symbolic from_iter harness into a timeout
// (inconclusive); these still execute the real code under Kani and report such a change.
macro_rules! from_iter_concrete_harness {
    ($name:ident, $input:expr, $expected:expr) => {
        #[kani::proof]
        #[kani::unwind(8)]
        fn $name() {
            let set: Oset<u8> = $input.into_iter().collect();
            let expected: &[u8] = &$expected;
            assert!(set.len() == expected.len(), "from_iter keeps duplicates or loses elements");
            let mut i = 0;
            while i < expected.len() {
                assert!(set[i] == expected[i]);
                i += 1;
            }
            kani::cover!(true);
        }
    };
}
from_iter_concrete_harness!(oset_from_iter_concrete_313, [3u8, 1, 3], [1u8, 3]);
from_iter_concrete_harness!(oset_from_iter_concrete_2212, [2u8, 2, 1, 2], [1u8, 2]);
from_iter_concrete_harness!(oset_from_iter_concrete_54321, [5u8, 4, 3, 2, 1], [1u8, 2, 3, 4, 5]);

// Vacuity twin: the same set-up as the insert harness with a false claim must FAIL.
#[kani::proof]
#[kani::unwind(6)]
fn oset_vacuity_twin_must_fail() {
    let base: [u8; 2] = ascending_base::<2>();
    let mut set: Oset<u8> = valid_state(base);
    let x: u8 = kani::any();
    set.insert(x);
    assert!(set.len() == 2, "EXPECTED-FAIL: insert of a fresh element grows the set");
}
