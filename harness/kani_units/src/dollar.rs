//! Justifies the stub used by the tokenizer step harnesses: on a `$`-prefixed identifier lexeme the
//! real DollarlessTerminalName::remove_dollars equals "drop the first byte".
use kiki::DollarlessTerminalName;

fn ident_byte(x: u8, first: bool) -> bool {
    (x >= b'a' && x <= b'z') || (x >= b'A' && x <= b'Z') || x == b'_' || (!first && x >= b'0' && x <= b'9')
}

macro_rules! strip_harness {
    ($name:ident, $n:expr, $unwind:expr) => {
        #[kani::proof]
        #[kani::unwind($unwind)]
        fn $name() {
            let mut b: [u8; $n] = kani::any();
            b[0] = b'$';
            let mut i = 1;
            while i < $n {
                kani::assume(ident_byte(b[i], i == 1));
                i += 1;
            }
            let s = unsafe { core::str::from_utf8_unchecked(&b) };
            let d = DollarlessTerminalName::remove_dollars(s);
            let raw = d.raw().as_bytes();
            assert!(raw.len() == $n - 1);
            let k: usize = kani::any();
            if k < $n - 1 {
                assert!(raw[k] == b[k + 1]);
            }
            kani::cover!(raw.len() == $n - 1);
            core::mem::forget(d);
        }
    };
}
strip_harness!(remove_dollars_is_strip_first_n2, 2, 5);
strip_harness!(remove_dollars_is_strip_first_n3, 3, 6);
strip_harness!(remove_dollars_is_strip_first_n4, 4, 7);
strip_harness!(remove_dollars_is_strip_first_n5, 5, 8);
