// Verification stand-ins for the three std containers the emitted parser uses
// (`Vec`, `Box`, `vec!`).  Fixed capacity, no `Drop` (the std versions' drop glue and
// RawVec growth are what make CBMC explode).  Capacity overflow is reported as
// VERIF-BOUND (inconclusive), never as a pass.  The shim is itself verified against a
// plain array model by the harnesses in harness/kani_units/src/shim.rs.
pub mod vstd {
    use core::mem::MaybeUninit;
    pub const CAP: usize = super::SHIM_CAP;
    pub struct Vec<T> {
        buf: [MaybeUninit<T>; CAP],
        len: usize,
    }
    impl<T> Vec<T> {
        pub fn new() -> Self {
            Vec { buf: [const { MaybeUninit::uninit() }; CAP], len: 0 }
        }
        pub fn push(&mut self, t: T) {
            assert!(self.len < CAP, "VERIF-BOUND vec capacity");
            self.buf[self.len] = MaybeUninit::new(t);
            self.len += 1;
        }
        pub fn pop(&mut self) -> Option<T> {
            if self.len == 0 {
                None
            } else {
                self.len -= 1;
                Some(unsafe { self.buf[self.len].assume_init_read() })
            }
        }
        pub fn last(&self) -> Option<&T> {
            if self.len == 0 {
                None
            } else {
                Some(unsafe { self.buf[self.len - 1].assume_init_ref() })
            }
        }
        pub fn len(&self) -> usize {
            self.len
        }
        pub fn is_empty(&self) -> bool {
            self.len == 0
        }
        pub fn truncate(&mut self, n: usize) {
            if n < self.len {
                self.len = n;
            }
        }
    }
    pub struct Box<T>(*mut T);
    impl<T> Box<T> {
        pub fn new(t: T) -> Self {
            Box(std::boxed::Box::into_raw(std::boxed::Box::new(t)))
        }
    }
    impl<T> core::ops::Deref for Box<T> {
        type Target = T;
        fn deref(&self) -> &T {
            unsafe { &*self.0 }
        }
    }
}
#[macro_export]
macro_rules! vvec {
    () => { $crate::vstd::Vec::new() };
    ($($x:expr),+ $(,)?) => {{ let mut v = $crate::vstd::Vec::new(); $( v.push($x); )+ v }};
}
